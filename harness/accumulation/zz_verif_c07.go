package accumulation

// C07 (containment, top-level analyzer): a panic anywhere inside accumulation.run is turned into a
// diagnostic at position 1 carrying config.InternalPanicPrefix; it never escapes to the driver.
// Kernel (real code): accumulation.run up to the panic point and its deferred recover.

import (
	"go/types"
	"strings"

	"go.uber.org/nilaway/annotation"
	"go.uber.org/nilaway/assertion"
	"go.uber.org/nilaway/config"
	"go.uber.org/nilaway/util/analysishelper"
	"golang.org/x/tools/go/analysis"
)

//verif:stub go.uber.org/nilaway/accumulation.c07NewPkg = c07NewPkgSym
//verif:stub (*go/types.Package).Path = c07PkgPath

var ndHarnesses = map[string]func(){"Harness_C07_Accumulation": Harness_C07_Accumulation}

var c07Path string

func c07NewPkg(path string) *types.Package    { return types.NewPackage(path, "p") }
func c07NewPkgSym(path string) *types.Package { c07Path = path; return new(types.Package) }
func c07PkgPath(p *types.Package) string      { return c07Path }

type c07Error struct{ msg string }

func (e *c07Error) Error() string { return e.msg }

func Harness_C07_Accumulation() {
	config.Analyzer = &analysis.Analyzer{Name: "nilaway_config"}
	assertion.Analyzer = &analysis.Analyzer{Name: "nilaway_assertion_analyzer"}
	annotation.Analyzer = &analysis.Analyzer{Name: "nilaway_annotation_analyzer"}
	msg := ndStr("message", 5)
	results := map[*analysis.Analyzer]interface{}{}
	fault := ndChoice("fault", 4)
	switch fault {
	case 0:
		// the config result is missing: run panics on its first type assertion
	case 1:
		// in scope, but the sub-analyzer results are missing: panics at the second type assertion
		results[config.Analyzer] = config.VerifConfig([]string{""}, nil, false)
	case 2:
		// a sub-analyzer reported an error: an INTERNAL ERROR diagnostic, not a crash
		results[config.Analyzer] = config.VerifConfig([]string{""}, nil, false)
		results[assertion.Analyzer] = &analysishelper.Result[[]annotation.FullTrigger]{Err: &c07Error{msg}}
		results[annotation.Analyzer] = &analysishelper.Result[*annotation.ObservedMap]{}
	case 3:
		// a result of the wrong type
		results[config.Analyzer] = 42
	}
	pass := &analysis.Pass{Pkg: c07NewPkg("m/p"), ResultOf: results}
	escaped := true
	var res interface{}
	var err error
	func() {
		defer func() {
			if recover() == nil {
				escaped = false
			}
		}()
		res, err = run(pass)
		escaped = false
	}()
	ndAssert("C07.no_panic_escapes_the_top_level_analyzer", !escaped)
	if escaped {
		return
	}
	ndAssert("C07.top_level_run_returns_no_error", err == nil)
	diags, ok := res.([]analysis.Diagnostic)
	ndAssert("C07.top_level_result_is_a_diagnostic_slice", ok)
	ndObserveInt("diagnostics", len(diags))
	ndAssert("C07.fault_is_reported_as_exactly_one_diagnostic", len(diags) == 1)
	if len(diags) == 1 {
		ndAssert("C07.fault_diagnostic_has_a_position_drivers_do_not_drop", diags[0].Pos > 0)
		if fault == 2 {
			ndAssert("C07.sub_analyzer_error_is_reported_with_its_text", ndAnd(strings.HasPrefix(diags[0].Message, "INTERNAL ERROR"), strings.Contains(diags[0].Message, msg)))
		} else {
			ndAssert("C07.recovered_panic_carries_the_internal_panic_prefix", strings.HasPrefix(diags[0].Message, config.InternalPanicPrefix))
		}
	}
}
