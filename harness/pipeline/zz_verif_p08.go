package accumulation

// C08 at source level: the (value, error) convention enforced at both ends, through the REAL pipeline
// (see zz_verif_pipe.go: real parser, type checker, CFG builder, backpropagation, inference, diagnostics).
//
// Program family: a callee `func callee() (*int, error)` with two return statements chosen from
// {nil,nil | new(int),nil | nil,errA | new(int),errA} (the first behind an opaque flag, or behind the
// callee's own `if e := other(); e != nil { return nil, e }`), optionally forwarded by `return callee()`,
// and a caller in one of sixteen forms: proper `!= nil` check, proper `== nil` check, no check, blank error,
// check without return, error variable overwritten by an assignment or by the next call's `:=` before the
// check, comparison with a sentinel instead of nil (three spellings), two checked calls.
//
// Oracle = the program's own semantics, built alongside the source as SMT terms over the opaque flags:
// "some execution of Entry dereferences a nil pointer". Obligations:
//   P08.A1  for all flag values: Entry panics  =>  at least one diagnostic is reported      (solver query)
//   P08.A2  callee respects the convention and the caller checks properly  =>  no diagnostic at all
//   P08.A3  nothing internal fails (no panic, no backpropagation error, no INTERNAL diagnostic)

//verif:use zz_verif_pipe.go

import (
	"strings"
)

type p08Ret struct{ vnil, enil, eIsA, eIsB bool }

func p08Return(tag string) (string, p08Ret) {
	switch ndChoice(tag, 4) {
	case 0:
		return "nil, nil", p08Ret{true, true, false, false}
	case 1:
		return "new(int), nil", p08Ret{false, true, false, false}
	case 2:
		return "nil, errA", p08Ret{true, false, true, false}
	}
	return "new(int), errA", p08Ret{false, false, true, false}
}

// p08AtDereference reports whether some diagnostic sits on a line of the source that dereferences the guarded result
// (`*v` / `*w`): the report of a convention violation is located at the dereference that would panic.
func p08AtDereference(r pipeResult, src string) bool {
	lines := strings.Split(src, "\n")
	for l := range r.lines() {
		if l >= 1 && l <= len(lines) && (strings.Contains(lines[l-1], "*v") || strings.Contains(lines[l-1], "*w")) {
			return true
		}
	}
	return false
}

func p08Ite(c bool, a, b p08Ret) p08Ret {
	return p08Ret{ndIteBool(c, a.vnil, b.vnil), ndIteBool(c, a.enil, b.enil), ndIteBool(c, a.eIsA, b.eIsA), ndIteBool(c, a.eIsB, b.eIsB)}
}

func Harness_P08() {
	flag0, flag2 := ndBool("flag0"), ndBool("flag2")
	var b strings.Builder
	b.WriteString("package p\n\ntype myErr struct{}\n\nfunc (*myErr) Error() string { return \"e\" }\n\n")
	b.WriteString("var errA error = &myErr{}\nvar errB error = &myErr{}\nvar flag0, flag2, flag3, flag4 bool\n\n")
	b.WriteString("func other() error {\n\tif flag2 {\n\t\treturn errB\n\t}\n\treturn nil\n}\n\n")
	b.WriteString("func callee2() (*int, error) { return new(int), nil }\n\n")
	otherNil := ndNot(flag2)

	// the callee
	shape := ndChoice("callee_shape", ndParam("SHAPES", 4))
	var res p08Ret
	respects := true
	if shape >= 2 {
		// named results: the first return is `v, err = R1` + bare return; the second is explicit (shape 2) or bare too (shape 3)
		s1, r1 := p08Return("ret1")
		s2, r2 := p08Return("ret2")
		b.WriteString("func callee() (v *int, err error) {\n\tif flag0 {\n\t\tv, err = " + s1 + "\n\t\treturn\n\t}\n")
		if shape == 2 {
			b.WriteString("\treturn " + s2 + "\n}\n\n")
		} else {
			b.WriteString("\tv, err = " + s2 + "\n\treturn\n}\n\n")
		}
		res = p08Ite(flag0, r1, r2)
		respects = !(r1.vnil && r1.enil) && !(r2.vnil && r2.enil)
	} else {
		b.WriteString("func callee() (*int, error) {\n")
	}
	if shape == 0 {
		s1, r1 := p08Return("ret1")
		s2, r2 := p08Return("ret2")
		b.WriteString("\tif flag0 {\n\t\treturn " + s1 + "\n\t}\n\treturn " + s2 + "\n}\n\n")
		res = p08Ite(flag0, r1, r2)
		respects = !(r1.vnil && r1.enil) && !(r2.vnil && r2.enil)
	} else if shape == 1 {
		s2, r2 := p08Return("ret2")
		b.WriteString("\tif e := other(); e != nil {\n\t\treturn nil, e\n\t}\n\treturn " + s2 + "\n}\n\n")
		res = p08Ite(otherNil, r2, p08Ret{true, false, false, true})
		respects = !(r2.vnil && r2.enil)
	}
	f := "callee"
	switch ndChoice("forwarded", 3) {
	case 1:
		b.WriteString("func mid() (*int, error) { return callee() }\n\n")
		f = "mid"
	case 2:
		// the forwarding function has a return statement of its own with a non-nil value
		b.WriteString("func mid() (*int, error) {\n\tif flag3 {\n\t\treturn new(int), nil\n\t}\n\treturn callee()\n}\n\n")
		f = "mid"
		res = p08Ite(ndBool("flag3"), p08Ret{false, true, false, false}, res)
	}

	// the caller
	form := ndChoice("caller_form", 16)
	proper := false
	var panics bool
	b.WriteString("func Entry() int {\n")
	switch form {
	case 0:
		b.WriteString("\tv, err := " + f + "()\n\tif err != nil {\n\t\treturn 0\n\t}\n\treturn *v\n")
		panics, proper = ndAnd(res.enil, res.vnil), true
	case 1:
		b.WriteString("\tv, _ := " + f + "()\n\treturn *v\n")
		panics = res.vnil
	case 2:
		b.WriteString("\tv, err := " + f + "()\n\t_ = err\n\treturn *v\n")
		panics = res.vnil
	case 3:
		b.WriteString("\tv, err := " + f + "()\n\tif err == nil {\n\t\treturn *v\n\t}\n\treturn 0\n")
		panics, proper = ndAnd(res.enil, res.vnil), true
	case 4:
		b.WriteString("\tv, err := " + f + "()\n\terr = other()\n\tif err != nil {\n\t\treturn 0\n\t}\n\treturn *v\n")
		panics = ndAnd(otherNil, res.vnil)
	case 5:
		b.WriteString("\tv, err := " + f + "()\n\tif err == errB {\n\t\treturn 0\n\t}\n\treturn *v\n")
		panics = ndAnd(ndNot(res.eIsB), res.vnil)
	case 6:
		b.WriteString("\tv, err := " + f + "()\n\tif err != nil {\n\t\t_ = 0\n\t}\n\treturn *v\n")
		panics = res.vnil
	case 7:
		b.WriteString("\tv, err := " + f + "()\n\tif err != nil {\n\t\treturn 0\n\t}\n\tw, err := " + f + "()\n\tif err != nil {\n\t\treturn 0\n\t}\n\treturn *v + *w\n")
		panics, proper = ndAnd(res.enil, res.vnil), true
	case 9:
		b.WriteString("\tv, err := " + f + "()\n\tif err == errA {\n\t\treturn *v\n\t}\n\treturn 0\n")
		panics = ndAnd(res.eIsA, res.vnil)
	case 10:
		b.WriteString("\tv, err := " + f + "()\n\tif err != errA {\n\t\treturn 0\n\t}\n\treturn *v\n")
		panics = ndAnd(res.eIsA, res.vnil)
	case 11: // the check combined with another condition by ||: still sufficient
		fl := ndBool("flag4")
		b.WriteString("\tv, err := " + f + "()\n\tif err != nil || flag4 {\n\t\treturn 0\n\t}\n\treturn *v\n")
		panics, proper = ndAnd(ndAnd(res.enil, ndNot(fl)), res.vnil), true
	case 12: // the check combined with another condition by &&: not sufficient
		fl := ndBool("flag4")
		b.WriteString("\tv, err := " + f + "()\n\tif err != nil && flag4 {\n\t\treturn 0\n\t}\n\treturn *v\n")
		panics = ndAnd(ndNot(ndAnd(ndNot(res.enil), fl)), res.vnil)
	case 13: // the check written as a tagless switch
		b.WriteString("\tv, err := " + f + "()\n\tswitch {\n\tcase err != nil:\n\t\treturn 0\n\t}\n\treturn *v\n")
		panics, proper = ndAnd(res.enil, res.vnil), true
	case 14: // the check written as a tagged switch on the error
		b.WriteString("\tv, err := " + f + "()\n\tswitch err {\n\tcase nil:\n\t\treturn *v\n\t}\n\treturn 0\n")
		panics, proper = ndAnd(res.enil, res.vnil), true
	case 15: // belt and braces: error check and value check
		b.WriteString("\tv, err := " + f + "()\n\tif err == nil && v != nil {\n\t\treturn *v\n\t}\n\treturn 0\n")
		panics, proper = false, true
	default:
		b.WriteString("\tv, err := " + f + "()\n\tw, err := callee2()\n\tif err != nil {\n\t\treturn 0\n\t}\n\treturn *v + *w\n")
		panics = res.vnil
	}
	b.WriteString("}\n")
	src := b.String()
	ndObserveStr("source", src)

	pipeDebug = ndParam("DEBUG", 0) == 1
	r := pipeAnalyse(src)
	for _, t := range r.trace {
		ndObserveStr("trigger", t)
	}
	ndObserveInt("triggers", r.triggers)
	ndObserveInt("diagnostics", len(r.diags))
	internal := r.panicked != "" || len(r.funcErrs) > 0
	for _, d := range r.diags {
		ndObserveStr("diag", d.Message)
		if strings.Contains(d.Message, "INTERNAL") {
			internal = true
		}
	}
	ndAssert("P08.A3.no_internal_failure", !internal)
	reported := len(r.diags) > 0
	ndAssert("P08.A1.a_possible_nil_dereference_of_a_guarded_result_is_reported", ndImplies(panics, reported))
	ndAssert("P08.A1b.the_report_is_located_at_a_dereference_of_the_result", ndImplies(panics, p08AtDereference(r, src)))
	if respects && proper {
		ndAssert("P08.A2.checked_use_of_a_convention_respecting_callee_is_not_reported", !reported)
	}
}

// Harness_P08_Ok: the (value, ok) form with constant ok operands.
func Harness_P08_Ok() {
	flag0, flag2 := ndBool("flag0"), ndBool("flag2")
	var b strings.Builder
	b.WriteString("package p\n\nvar flag0, flag2, flag3 bool\n\nfunc other() bool { return flag2 }\n\n")
	ret := func(tag string) (string, bool, bool) { // text, value is nil, ok
		switch ndChoice(tag, 4) {
		case 0:
			return "nil, true", true, true
		case 1:
			return "new(int), true", false, true
		case 2:
			return "nil, false", true, false
		}
		return "new(int), false", false, false
	}
	s1, v1, o1 := ret("ret1")
	s2, v2, o2 := ret("ret2")
	named := ndChoice("named_results", 2) == 1
	if named {
		b.WriteString("func callee() (v *int, ok bool) {\n\tif flag0 {\n\t\tv, ok = " + s1 + "\n\t\treturn\n\t}\n\treturn " + s2 + "\n}\n\n")
	} else {
		b.WriteString("func callee() (*int, bool) {\n\tif flag0 {\n\t\treturn " + s1 + "\n\t}\n\treturn " + s2 + "\n}\n\n")
	}
	vnil, ok := ndIteBool(flag0, v1, v2), ndIteBool(flag0, o1, o2)
	respects := !(v1 && o1) && !(v2 && o2)
	f := "callee"
	switch ndChoice("forwarded", 3) {
	case 1:
		b.WriteString("func mid() (*int, bool) { return callee() }\n\n")
		f = "mid"
	case 2:
		b.WriteString("func mid() (*int, bool) {\n\tif flag3 {\n\t\treturn new(int), true\n\t}\n\treturn callee()\n}\n\n")
		f = "mid"
		flag3 := ndBool("flag3")
		vnil, ok = ndIteBool(flag3, false, vnil), ndIteBool(flag3, true, ok)
	}
	proper := false
	var panics bool
	b.WriteString("func Entry() int {\n")
	switch ndChoice("caller_form", 7) {
	case 0:
		b.WriteString("\tv, ok := " + f + "()\n\tif !ok {\n\t\treturn 0\n\t}\n\treturn *v\n")
		panics, proper = ndAnd(ok, vnil), true
	case 1:
		b.WriteString("\tv, _ := " + f + "()\n\treturn *v\n")
		panics = vnil
	case 2:
		b.WriteString("\tv, ok := " + f + "()\n\tif ok {\n\t\treturn *v\n\t}\n\treturn 0\n")
		panics, proper = ndAnd(ok, vnil), true
	case 3:
		b.WriteString("\tv, ok := " + f + "()\n\t_ = ok\n\treturn *v\n")
		panics = vnil
	case 4:
		b.WriteString("\tv, ok := " + f + "()\n\tok = other()\n\tif !ok {\n\t\treturn 0\n\t}\n\treturn *v\n")
		panics = ndAnd(flag2, vnil)
	case 5:
		b.WriteString("\tv, ok := " + f + "()\n\tif ok == false {\n\t\treturn 0\n\t}\n\treturn *v\n")
		panics = ndAnd(ok, vnil)
	default:
		b.WriteString("\tv, ok := " + f + "()\n\tif !ok {\n\t\t_ = 0\n\t}\n\treturn *v\n")
		panics = vnil
	}
	b.WriteString("}\n")
	src := b.String()
	ndObserveStr("source", src)
	pipeDebug = ndParam("DEBUG", 0) == 1
	r := pipeAnalyse(src)
	for _, t := range r.trace {
		ndObserveStr("trigger", t)
	}
	ndObserveInt("diagnostics", len(r.diags))
	internal := r.panicked != "" || len(r.funcErrs) > 0
	for _, d := range r.diags {
		ndObserveStr("diag", d.Message)
		if strings.Contains(d.Message, "INTERNAL") {
			internal = true
		}
	}
	ndAssert("P08.A3.no_internal_failure", !internal)
	reported := len(r.diags) > 0
	ndAssert("P08.ok.A1.a_possible_nil_dereference_of_a_guarded_result_is_reported", ndImplies(panics, reported))
	ndAssert("P08.ok.A1b.the_report_is_located_at_a_dereference_of_the_result", ndImplies(panics, p08AtDereference(r, src)))
	// With named results the first return is a bare `return`: its ok operand is not a constant, NilAway has to
	// assume it may be true, and reporting `v, ok = nil, false; return` is within what the property allows
	// ("constant ok operands"). A2 is therefore stated for explicit returns only.
	if respects && proper && !named {
		ndAssert("P08.ok.A2.checked_use_of_a_convention_respecting_callee_is_not_reported", !reported)
	}
}
