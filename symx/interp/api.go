package interp

import (
	"fmt"
	"os"
	"path/filepath"
	"regexp"
	"strings"

	"golang.org/x/tools/go/packages"
	"golang.org/x/tools/go/ssa"
	"golang.org/x/tools/go/ssa/ssautil"
)

// Loaded is a type-checked, SSA-built view of /repo plus harness overlays.
type Loaded struct {
	Prog *ssa.Program
	Pkgs []*packages.Package
	SSA  []*ssa.Package
}

// Load type-checks the packages matching patterns in dir with the overlay
// applied and builds SSA (generics instantiated) for them and all dependencies.
func Load(dir string, patterns []string, overlay map[string][]byte) (*Loaded, error) {
	cfg := &packages.Config{
		Mode:    packages.LoadAllSyntax,
		Dir:     dir,
		Overlay: overlay,
		Env:     append(os.Environ(), "GOFLAGS=-mod=mod", "GOPROXY=off"),
	}
	pkgs, err := packages.Load(cfg, patterns...)
	if err != nil {
		return nil, err
	}
	var errs []string
	packages.Visit(pkgs, nil, func(p *packages.Package) {
		for _, e := range p.Errors {
			errs = append(errs, e.Error())
		}
	})
	if len(errs) > 0 {
		if len(errs) > 20 {
			errs = errs[:20]
		}
		return nil, fmt.Errorf("load errors:\n%s", strings.Join(errs, "\n"))
	}
	prog, spkgs := ssautil.AllPackages(pkgs, ssa.InstantiateGenerics|ssa.SanityCheckFunctions)
	prog.Build()
	return &Loaded{Prog: prog, Pkgs: pkgs, SSA: spkgs}, nil
}

// FindFunc resolves "import/path.Func".
func (l *Loaded) FindFunc(qual string) (*ssa.Function, error) {
	k := strings.LastIndexByte(qual, '.')
	if k < 0 {
		return nil, fmt.Errorf("bad function name %q", qual)
	}
	path, name := qual[:k], qual[k+1:]
	pkg := l.Prog.ImportedPackage(path)
	if pkg == nil {
		return nil, fmt.Errorf("package %q not loaded", path)
	}
	f := pkg.Func(name)
	if f == nil {
		return nil, fmt.Errorf("no function %s in %s", name, path)
	}
	return f, nil
}

var stubRe = regexp.MustCompile(`(?m)^//verif:stub\s+(.+?)\s+=\s+(\S+)\s*$`)
var initRe = regexp.MustCompile(`(?m)^//verif:init\s+(\S+)\s*$`)

// //verif:zero <pkg.Var>: the harness states that the zero value is the model of this initialised package-level
// variable (e.g. an analyzer object that is only used as a map key); recorded with the other directives.
var zeroRe = regexp.MustCompile(`(?m)^//verif:zero\s+(\S+)\s*$`)

// Directives extracts //verif:stub and //verif:init lines from a harness source.
func Directives(src []byte, pkgPath string) (stubs map[string]string, inits []string) {
	stubs = map[string]string{}
	for _, m := range stubRe.FindAllSubmatch(src, -1) {
		repl := string(m[2])
		if !strings.Contains(repl, ".") {
			repl = pkgPath + "." + repl
		}
		stubs[string(m[1])] = repl
	}
	for _, m := range initRe.FindAllSubmatch(src, -1) {
		inits = append(inits, string(m[1]))
	}
	for _, m := range zeroRe.FindAllSubmatch(src, -1) {
		inits = append(inits, "zero:"+string(m[1]))
	}
	return
}

// ResolveStubs maps stub target names to functions; every target must exist
// in the program (a stale stub must not silently disappear).
func (l *Loaded) ResolveStubs(stubs map[string]string) (map[string]*ssa.Function, error) {
	byName := map[string]*ssa.Function{}
	for fn := range ssautil.AllFunctions(l.Prog) {
		byName[fn.String()] = fn
	}
	out := map[string]*ssa.Function{}
	for target, repl := range stubs {
		if _, ok := byName[target]; !ok {
			return nil, fmt.Errorf("stub target %q does not exist in the program", target)
		}
		f, err := l.FindFunc(repl)
		if err != nil {
			return nil, err
		}
		out[target] = f
	}
	return out, nil
}

// InstrCount returns the number of SSA instructions of the named functions.
func (l *Loaded) InstrCount(names map[string]int64) map[string]int {
	out := map[string]int{}
	for fn := range ssautil.AllFunctions(l.Prog) {
		if _, ok := names[fn.String()]; ok {
			n := 0
			for _, b := range fn.Blocks {
				n += len(b.Instrs)
			}
			out[fn.String()] = n
		}
	}
	return out
}

// OverlayPath is where a harness file for package dir (relative to repo) is injected.
func OverlayPath(repo, pkgDir, base string) string {
	return filepath.Join(repo, pkgDir, base)
}
