package assertiontree

// C02 (guard recognition and branch attribution), C17 (CFG preprocessing never writes shared input)
// and C19-K2 (a nil / length comparison is attributed to the correct branch however it is written).
// DESIGN.md section 4.
//
// Kernel (real code): preprocess.(*Preprocessor).CFG (copyGraph, canonicalizeConditional,
// replaceConditional, restructureOnNoReturnCall, splitBlockOnTrustedFuncs, collectChildren,
// mark*Statements, inlineTemplComponentFuncLit's early exits), blocksAndPreprocessingFromCFG,
// getConditional, AddNilCheck and the closures it returns, extractLenArgs, lenMinusPositiveArg,
// likelyPositiveInt, EnhancedPass.IsNil/IsZero/ConstInt, tokenhelper.Converse/Inverse.
//
// The SHAPE of the guard condition is a choice (an AST has to be concrete); the truth value of
// every atom, the nil-ness of x and y, len(a) and the integer constants are symbolic.

import (
	"go/ast"
	"go/constant"
	"go/token"
	"go/types"

	"go.uber.org/nilaway/annotation"
	"go.uber.org/nilaway/assertion/function/preprocess"
	"go.uber.org/nilaway/util/analysishelper"
	"golang.org/x/tools/go/analysis"
	"golang.org/x/tools/go/cfg"
)

//verif:stub (*go.uber.org/nilaway/assertion/function/assertiontree.RootAssertionNode).AddProduction = c02AddProduction

var ndHarnesses = map[string]func(){
	"Harness_C02":        Harness_C02,
	"Harness_C19_K2":     Harness_C19_K2,
	"Harness_C02_Switch": Harness_C02_Switch,
	"Harness_C19_K2b":    Harness_C19_K2b,
}

type c02Prod struct {
	expr   ast.Expr
	nonnil bool
}

var c02Prods []c02Prod

// AddProduction belongs to the assertion tree (outside this kernel); it is replaced by a recorder.
func c02AddProduction(r *RootAssertionNode, p *annotation.ProduceTrigger, deeper ...*annotation.ProduceTrigger) {
	_, neg := p.Annotation.(*annotation.NegativeNilCheck)
	c02Prods = append(c02Prods, c02Prod{expr: p.Expr, nonnil: neg})
}

type c02World struct {
	x, y, c, nilID *ast.Ident // the identifiers (shared AST nodes, as in a real function)
	xnil, ynil, cv bool       // symbolic valuation
	pos            int
	leafBudget     int // how many more atoms the condition may contain (LEAVES)
}

func (w *c02World) ident(name string) *ast.Ident {
	w.pos++
	return &ast.Ident{Name: name, NamePos: token.Pos(w.pos)}
}

// gen builds a condition of bounded depth; every constructor choice is explored.
func (w *c02World) gen(depth int, boolLits bool) ast.Expr {
	n := 5
	// a binary connective needs two leaves: it is offered only while the leaf budget allows it
	if depth > 0 && w.leafBudget < 2 {
		n = 7
		k := ndChoice("shape", n)
		if k >= 5 {
			if k == 5 {
				return &ast.UnaryExpr{Op: token.NOT, X: w.gen(depth-1, boolLits)}
			}
			return &ast.ParenExpr{X: w.gen(depth-1, boolLits)}
		}
		return w.leaf(k)
	}
	if depth > 0 {
		n = 9
		if boolLits {
			n = 13
		}
	}
	k := ndChoice("shape", n)
	switch k {
	case 0, 1, 2, 3, 4:
		return w.leaf(k)
	case 5:
		return &ast.UnaryExpr{Op: token.NOT, X: w.gen(depth-1, boolLits)}
	case 6:
		return &ast.ParenExpr{X: w.gen(depth-1, boolLits)}
	case 7, 8:
		op := token.LAND
		if k == 8 {
			op = token.LOR
		}
		// the left operand may use all but one of the remaining leaves, the right one what is left
		total := w.leafBudget
		w.leafBudget = total - 1
		l := w.gen(depth-1, boolLits)
		usedLeft := (total - 1) - w.leafBudget
		w.leafBudget = total - usedLeft
		r := w.gen(depth-1, boolLits)
		return &ast.BinaryExpr{X: l, Op: op, Y: r}
	case 9:
		return &ast.BinaryExpr{X: w.gen(depth-1, boolLits), Op: token.EQL, Y: w.ident("true")}
	case 10:
		return &ast.BinaryExpr{X: w.gen(depth-1, boolLits), Op: token.NEQ, Y: w.ident("false")}
	case 11:
		return &ast.BinaryExpr{X: w.ident("false"), Op: token.EQL, Y: w.gen(depth-1, boolLits)}
	default:
		return &ast.BinaryExpr{X: w.gen(depth-1, boolLits), Op: token.NEQ, Y: w.ident("true")}
	}
}

// leaf builds one of the five atoms and charges the leaf budget.
func (w *c02World) leaf(k int) ast.Expr {
	w.leafBudget--
	switch k {
	case 0:
		return &ast.BinaryExpr{X: w.x, Op: token.EQL, Y: w.ident("nil")}
	case 1:
		return &ast.BinaryExpr{X: w.x, Op: token.NEQ, Y: w.ident("nil")}
	case 2:
		return &ast.BinaryExpr{X: w.ident("nil"), Op: token.EQL, Y: w.y}
	case 3:
		return &ast.BinaryExpr{X: w.ident("nil"), Op: token.NEQ, Y: w.y}
	}
	return w.c
}

// eval is the reference semantics of the ORIGINAL condition under the symbolic valuation.
func (w *c02World) eval(e ast.Expr) bool {
	switch e := e.(type) {
	case *ast.Ident:
		switch e.Name {
		case "c":
			return w.cv
		case "true":
			return true
		case "false":
			return false
		}
		panic("c02: eval of identifier " + e.Name)
	case *ast.ParenExpr:
		return w.eval(e.X)
	case *ast.UnaryExpr:
		return ndNot(w.eval(e.X))
	case *ast.BinaryExpr:
		switch e.Op {
		case token.LAND:
			return ndAnd(w.eval(e.X), w.eval(e.Y))
		case token.LOR:
			return ndOr(w.eval(e.X), w.eval(e.Y))
		}
		// comparison: pointer-vs-nil or bool-vs-bool
		if v, ok := w.isNilCmp(e); ok {
			if e.Op == token.EQL {
				return v
			}
			return ndNot(v)
		}
		l, r := w.eval(e.X), w.eval(e.Y)
		if e.Op == token.EQL {
			return ndIff(l, r)
		}
		return ndNot(ndIff(l, r))
	}
	panic("c02: eval of unexpected node")
}

func (w *c02World) nilness(id *ast.Ident) (bool, bool) {
	switch id {
	case w.x:
		return w.xnil, true
	case w.y:
		return w.ynil, true
	}
	return false, false
}

// isNilCmp recognises `v OP nil` / `nil OP v` and returns "v is nil".
func (w *c02World) isNilCmp(e *ast.BinaryExpr) (bool, bool) {
	xi, xok := e.X.(*ast.Ident)
	yi, yok := e.Y.(*ast.Ident)
	if !xok || !yok {
		return false, false
	}
	if yi.Name == "nil" {
		return w.nilness(xi)
	}
	if xi.Name == "nil" {
		return w.nilness(yi)
	}
	return false, false
}

func c02Pass() *analysishelper.EnhancedPass {
	return analysishelper.NewEnhancedPass(&analysis.Pass{TypesInfo: &types.Info{
		Types: map[ast.Expr]types.TypeAndValue{}, Defs: map[*ast.Ident]types.Object{}, Uses: map[*ast.Ident]types.Object{}}})
}

func Harness_C02() {
	w := &c02World{xnil: ndBool("x_is_nil"), ynil: ndBool("y_is_nil"), cv: ndBool("c")}
	w.x, w.y, w.c = w.ident("x"), w.ident("y"), w.ident("c")
	depth := ndParam("DEPTH", 2)
	boolLits := ndParam("BOOL_LITERALS", 0) == 1
	w.leafBudget = ndParam("LEAVES", 8)
	e := w.gen(depth, boolLits)
	want := w.eval(e)

	// the driver-shared input: a CFG whose entry block ends with the whole condition
	tBlock := &cfg.Block{Nodes: []ast.Node{&ast.ExprStmt{X: w.ident("T")}}, Live: true, Index: 1}
	fBlock := &cfg.Block{Nodes: []ast.Node{&ast.ExprStmt{X: w.ident("F")}}, Live: true, Index: 2}
	entry := &cfg.Block{Nodes: []ast.Node{&ast.ExprStmt{X: w.ident("pre")}, e}, Succs: []*cfg.Block{tBlock, fBlock}, Live: true, Index: 0}
	graph := &cfg.CFG{Blocks: []*cfg.Block{entry, tBlock, fBlock}}
	decl := &ast.FuncDecl{Name: w.ident("f"), Type: &ast.FuncType{}, Body: &ast.BlockStmt{}}
	before := ndSnapshot(graph, e)

	pass := c02Pass()
	pre := preprocess.New(pass).CFG(graph, decl)
	blocks, prep := blocksAndPreprocessingFromCFG(pass, pre, make([][]RichCheckEffect, len(pre.Blocks)))

	// C17: the shared graph and AST are untouched, and nothing of the result aliases them
	ndAssert("C17.input_cfg_and_ast_unchanged", ndSnapshot(graph, e) == before)
	shared := false
	for _, b := range pre.Blocks {
		for _, o := range graph.Blocks {
			if b == o || ndSameAddr(b.Nodes, o.Nodes) || ndSameAddr(b.Succs, o.Succs) {
				shared = true
			}
		}
	}
	ndAssert("C17.result_shares_no_block_or_backing_array_with_input", !shared)

	// walk the preprocessed CFG under the valuation
	cur := blocks[0]
	root := &RootAssertionNode{}
	for steps := 0; ; steps++ {
		if steps > 64 {
			ndAssert("C02.A1.walk_terminates", false)
			return
		}
		cond := getConditional(cur)
		if cond == nil {
			break
		}
		var v bool
		canonical := false
		switch c := cond.(type) {
		case *ast.Ident:
			if c == w.c {
				v, canonical = w.cv, true
			}
		case *ast.BinaryExpr:
			if c.Op == token.EQL {
				if id, ok := c.X.(*ast.Ident); ok {
					if yi, ok := c.Y.(*ast.Ident); ok && yi.Name == "nil" {
						if nv, ok := w.nilness(id); ok {
							v, canonical = nv, true
							// A3': a canonical nil test is recognised, on its non-nil edge only
							pp := prep[cur.Index]
							ndAssert("C02.A3.canonical_nil_test_is_recognised", pp != nil)
							if pp != nil {
								c02Prods = nil
								pp.trueBranchFunc(root)
								ndAssert("C02.A3.nil_edge_produces_nothing", len(c02Prods) == 0)
								c02Prods = nil
								pp.falseBranchFunc(root)
								ndAssert("C02.A3.nonnil_edge_produces_nonnil_for_the_tested_variable", len(c02Prods) == 1 && c02Prods[0].expr == ast.Expr(id) && c02Prods[0].nonnil)
							}
						}
					}
				}
			}
		}
		if !boolLits {
			// (with `== true`-style spellings, which the property does not list, canonicalizeConditional
			// does not re-canonicalise the operand; A4/A3 are then not demanded, A1/A2/C17 still are)
			ndAssert("C02.A4.every_leaf_condition_is_canonical", canonical)
		}
		if !canonical {
			if e2, ok := cond.(ast.Expr); ok && boolLits {
				v = w.eval(e2)
			} else {
				return
			}
		}
		taken := 1
		if ndConcBool(v) {
			taken = 0
		}
		// A2: whatever is produced on the edge taken is true under the valuation
		if pp := prep[cur.Index]; pp != nil {
			c02Prods = nil
			if taken == 0 {
				pp.trueBranchFunc(root)
			} else {
				pp.falseBranchFunc(root)
			}
			for _, p := range c02Prods {
				id, _ := p.expr.(*ast.Ident)
				nv, ok := w.nilness(id)
				ndAssert("C02.A2.production_names_a_tracked_variable", ok && p.nonnil)
				if ok {
					ndAssert("C02.A2.attributed_nonnil_fact_is_true_on_this_branch", ndNot(nv))
				}
			}
		}
		cur = cur.Succs[taken]
	}
	// A1: meaning preserved
	reachedT := len(cur.Nodes) == 1 && cur.Nodes[0] == tBlock.Nodes[0]
	reachedF := len(cur.Nodes) == 1 && cur.Nodes[0] == fBlock.Nodes[0]
	ndObserveBool("reached_true_branch", reachedT)
	ndAssert("C02.A1.walk_ends_in_a_branch_block", reachedT || reachedF)
	ndAssert("C02.A1.preprocessed_cfg_takes_the_true_branch_iff_condition_holds", ndIff(reachedT, want))
}

// ---------------------------------------------------------------------------------------------
// C19-K2: single comparisons over nil and len()

type k2World struct {
	pass *analysishelper.EnhancedPass
	a, x *ast.Ident
	L    int64 // len(a) >= 0
	anil bool
	xnil bool
}

func (w *k2World) konst(name string, v int64) ast.Expr {
	lit := &ast.BasicLit{Kind: token.INT, Value: name}
	w.pass.TypesInfo.Types[lit] = types.TypeAndValue{Value: constant.MakeInt64(v)}
	return lit
}

func (w *k2World) lenA() ast.Expr {
	return &ast.CallExpr{Fun: &ast.Ident{Name: "len"}, Args: []ast.Expr{w.a}}
}

func cmpInt(op token.Token, l, r int64) bool {
	switch op {
	case token.EQL:
		return l == r
	case token.NEQ:
		return l != r
	case token.LSS:
		return l < r
	case token.LEQ:
		return l <= r
	case token.GTR:
		return l > r
	case token.GEQ:
		return l >= r
	}
	panic("cmpInt")
}

func k2Ops() []token.Token {
	return []token.Token{token.EQL, token.NEQ, token.LSS, token.LEQ, token.GTR, token.GEQ}
}

func Harness_C19_K2() {
	w := &k2World{pass: c02Pass(), a: &ast.Ident{Name: "a", NamePos: 1}, x: &ast.Ident{Name: "x", NamePos: 2}}
	w.L = int64(ndInt("len_a", 0, 1<<62))
	w.anil = ndBool("a_is_nil")
	w.xnil = ndBool("x_is_nil")
	ndAssume(ndImplies(w.anil, w.L == 0)) // a nil slice has length 0
	op := k2Ops()[ndChoice("op", 6)]
	k := int64(ndInt("k", -(1 << 62), 1<<62))
	var e *ast.BinaryExpr
	var holds bool         // run-time truth of the comparison
	soundShape := true     // shapes whose matchers the source documents as sound
	var subject *ast.Ident // the variable a production may speak about
	var subjNil bool
	shape := ndChoice("shape", 8)
	switch shape {
	case 0: // x OP nil
		op = []token.Token{token.EQL, token.NEQ}[ndChoice("eqop", 2)]
		e = &ast.BinaryExpr{X: w.x, Op: op, Y: &ast.Ident{Name: "nil"}}
		holds, subject, subjNil = (op == token.EQL) == ndConcBool(w.xnil), w.x, w.xnil
	case 1: // nil OP x
		op = []token.Token{token.EQL, token.NEQ}[ndChoice("eqop", 2)]
		e = &ast.BinaryExpr{X: &ast.Ident{Name: "nil"}, Op: op, Y: w.x}
		holds, subject, subjNil = (op == token.EQL) == ndConcBool(w.xnil), w.x, w.xnil
	case 2: // len(a) OP k
		e = &ast.BinaryExpr{X: w.lenA(), Op: op, Y: w.konst("k", k)}
		holds, subject, subjNil = cmpInt(op, w.L, k), w.a, w.anil
	case 3: // k OP len(a)
		e = &ast.BinaryExpr{X: w.konst("k", k), Op: op, Y: w.lenA()}
		holds, subject, subjNil = cmpInt(op, k, w.L), w.a, w.anil
	case 4, 5: // len(a) - c OP 0   /  len(a) + c OP 0   (restricted to the `>= 0` family, which matcher 7 documents as sound)
		op = []token.Token{token.GEQ, token.LSS}[ndChoice("geop", 2)]
		arith := token.SUB
		val := w.L - k
		if shape == 5 {
			arith, val = token.ADD, w.L+k
		}
		e = &ast.BinaryExpr{X: &ast.BinaryExpr{X: w.lenA(), Op: arith, Y: w.konst("c", k)}, Op: op, Y: w.konst("zero", 0)}
		holds, subject, subjNil = cmpInt(op, val, 0), w.a, w.anil
	default: // 0 OP len(a) - c  /  0 OP len(a) + c
		op = []token.Token{token.LEQ, token.GTR}[ndChoice("leop", 2)]
		arith := token.SUB
		val := w.L - k
		if shape == 7 {
			arith, val = token.ADD, w.L+k
		}
		e = &ast.BinaryExpr{X: w.konst("zero", 0), Op: op, Y: &ast.BinaryExpr{X: w.lenA(), Op: arith, Y: w.konst("c", k)}}
		holds, subject, subjNil = cmpInt(op, 0, val), w.a, w.anil
	}
	_ = soundShape
	trueCheck, falseCheck, isNoop := AddNilCheck(w.pass, e)
	ndObserveBool("noop", isNoop)
	root := &RootAssertionNode{}
	for branch := 0; branch < 2; branch++ {
		c02Prods = nil
		if branch == 0 {
			trueCheck(root)
		} else {
			falseCheck(root)
		}
		for _, p := range c02Prods {
			ndAssert("C19.K2.production_is_about_the_compared_variable", p.expr == ast.Expr(subject) && p.nonnil)
			// whenever the comparison has the value of this branch, the variable really is non-nil
			onBranch := holds
			if branch == 1 {
				onBranch = ndNot(holds)
			}
			ndAssert("C19.K2.nonnil_is_attributed_to_the_correct_branch", ndImplies(onBranch, ndNot(subjNil)))
		}
	}
}
