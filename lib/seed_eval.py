#!/usr/bin/env python3
"""seed_eval.py <seed-src-dir> <name> <property> [check-id ...]

Confirms a seeded change in a scratch worktree (applies, builds, suite passes, demo fails with /
passes without), stores it under /verif/seeded/<name>/ and runs the given checks (default: the
property's own, quick tier) against a scratch worktree with the change applied (VERIF_REPO)."""
import json, os, re, shutil, subprocess, sys, time

VERIF = os.path.dirname(os.path.dirname(os.path.abspath(__file__)))
ENV = dict(os.environ, GOFLAGS="-mod=mod", GOPROXY="off")


def sh(cmd, cwd=None, env=None, timeout=3600):
    r = subprocess.run(cmd, shell=isinstance(cmd, str), cwd=cwd, env=env or ENV, stdout=subprocess.PIPE, stderr=subprocess.STDOUT, text=True, timeout=timeout)
    return r.returncode, r.stdout


def demo_cmds(run_txt):
    cmds = []
    for line in open(run_txt):
        line = line.strip()
        m = re.search(r"(^|\s)go test\s", line)
        if line.startswith("#") or not m:
            continue
        # keep only the go test part of "cp ... && go test ..." lines
        line = line[m.start():].strip() if not line.startswith(("GOFLAGS", "go test", "export")) else line
        line = re.sub(r"^(export\s+)?((GOFLAGS|GOPROXY)=\S+\s+)+", "", line)
        if line.startswith("go test"):
            # keep the test command only (RUN.txt lines often continue with "; rm ..." clean-up or a trailing backslash)
            line = re.split(r"\s*(;|&&|\\$)", line)[0].strip()
            cmds.append(line)
    return cmds


def main():
    src, name, prop = sys.argv[1:4]
    checks = sys.argv[4:] or [prop]
    tier = os.environ.get("SEED_TIER", "quick")
    dest = os.path.join(VERIF, "seeded", name)
    if os.path.realpath(src) == os.path.realpath(dest):
        # re-evaluation of a stored seed: stage its sources outside before the directory is rewritten
        stage = "/tmp/seedeval/_stage_" + name
        shutil.rmtree(stage, ignore_errors=True)
        shutil.copytree(src, stage)
        src = stage
    shutil.rmtree(dest, ignore_errors=True)
    os.makedirs(dest)
    shutil.copy(os.path.join(src, "patch.diff"), dest)
    if os.path.exists(os.path.join(src, "README.md")):
        shutil.copy(os.path.join(src, "README.md"), dest)
    shutil.copytree(os.path.join(src, "demo"), os.path.join(dest, "demo"))
    wt = "/tmp/seedeval/" + name
    sh(f"git -C /repo worktree remove --force {wt}")
    shutil.rmtree(wt, ignore_errors=True)
    rc, out = sh(f"git -C /repo worktree add -q --detach {wt} HEAD")
    meta = dict(name=name, property=prop, source="independent sub-agent given only the property text and a scratch worktree", base_commit=sh("git -C /repo rev-parse --short HEAD")[1].strip())
    try:
        rc, out = sh(f"git apply {dest}/patch.diff", cwd=wt)
        meta["applies"] = rc == 0
        if rc != 0:
            meta["apply_log"] = out[-2000:]
            return meta
        rc, out = sh("go build ./...", cwd=wt)
        meta["builds"] = rc == 0
        t0 = time.time()
        rc, out = sh("go test -vet=off -count=1 ./...", cwd=wt)
        meta["suite_passes_with_change"] = rc == 0 and "FAIL" not in out
        meta["suite_s"] = round(time.time() - t0, 1)
        if not meta["suite_passes_with_change"]:
            meta["suite_log"] = out[-3000:]
        # demo with the change
        cmds = demo_cmds(os.path.join(dest, "demo", "RUN.txt"))
        meta["demo_cmds"] = cmds
        demo_files, demo_sources = [], {}
        # RUN.txt may place a demo file elsewhere than at its path below demo/ ("cp SEED/demo/x_test.go ./diagnostic/x_test.go")
        cp_targets = {}
        for line in open(os.path.join(dest, "demo", "RUN.txt")):
            parts = line.strip().split()
            if len(parts) == 3 and parts[0] == "cp" and "/demo/" in parts[1]:
                base, target = os.path.basename(parts[1]), parts[2]
                if target.endswith("/" + base) and not os.path.exists(os.path.join(dest, "demo", os.path.normpath(target))):
                    cp_targets[base] = os.path.normpath(target)
        for root, _, files in os.walk(os.path.join(dest, "demo")):
            for f in files:
                if f == "RUN.txt":
                    continue
                rel = os.path.relpath(os.path.join(root, f), os.path.join(dest, "demo"))
                rel = cp_targets.get(f, rel)
                os.makedirs(os.path.dirname(os.path.join(wt, rel)) or wt, exist_ok=True)
                shutil.copy(os.path.join(root, f), os.path.join(wt, rel))
                demo_files.append(rel)
                demo_sources[rel] = os.path.join(root, f)
        def run_demo():
            worst, log = 0, ""
            for c in cmds:
                rc, out = sh(c, cwd=wt, timeout=1800)
                worst = max(worst, rc)
                log += f"$ {c}\n{out[-1500:]}\n"
            return worst, log
        rc, log = run_demo()
        meta["demo_fails_with_change"] = rc != 0
        open(os.path.join(dest, "demo_with_change.log"), "w").write(log)
        # checks against the changed tree
        for f in demo_files:
            if os.path.exists(os.path.join(wt, f)):
                os.remove(os.path.join(wt, f))
        results = {}
        for cid in checks:
            env = dict(ENV, VERIF_REPO=wt, VERIF_TIER=tier)
            t0 = time.time()
            rc, out = sh([os.path.join(VERIF, "check"), cid, "--tier", tier], cwd=VERIF, env=env, timeout=7200)
            lines = [l for l in out.splitlines() if l.startswith(("VIOLATION", "  assertion", "INCONCLUSIVE", "KNOWN-FINDING", "OK ")) or l.strip().startswith("violation ")]
            results[cid] = dict(tier=tier, exit=rc, wall_s=round(time.time() - t0, 1), lines=[l[:300] for l in lines[:12]])
        meta["checks"] = results
        meta["detected_by"] = [c for c, r in results.items() if r["exit"] == 1 and any(l.startswith("VIOLATION property=") for l in r["lines"])]
        # demo without the change
        for rel in demo_files:
            os.makedirs(os.path.dirname(os.path.join(wt, rel)) or wt, exist_ok=True)
            shutil.copy(demo_sources[rel], os.path.join(wt, rel))
        sh(f"git apply -R {dest}/patch.diff", cwd=wt)
        rc, log = run_demo()
        meta["demo_passes_without_change"] = rc == 0
        open(os.path.join(dest, "demo_without_change.log"), "w").write(log)
        return meta
    finally:
        sh(f"git -C /repo worktree remove --force {wt}")
        shutil.rmtree(wt, ignore_errors=True)
        readme = os.path.join(dest, "README.md")
        if os.path.exists(readme):
            txt = open(readme).read()
            m = re.search(r"(?is)(needs?|manifest|trigger|only (shows|manifests))[^\n]*\n(.{0,600})", txt)
            meta["what_it_needs_to_manifest"] = "see README.md (written by the sub-agent)"
        meta["what_i_ran"] = "lib/seed_eval.py: git apply in a scratch worktree of /repo HEAD; go build ./...; go test -vet=off -count=1 ./...; the demo's go test commands with and without the change; ./check <id> with VERIF_REPO pointing at the changed worktree"
        json.dump(meta, open(os.path.join(dest, "meta.json"), "w"), indent=1)
        print(json.dumps({k: meta.get(k) for k in ["name", "applies", "builds", "suite_passes_with_change", "demo_fails_with_change", "demo_passes_without_change", "detected_by"]}))
        for c, r in meta.get("checks", {}).items():
            print("  ", c, "exit", r["exit"], r["wall_s"], "s", r["lines"][:3])


if __name__ == "__main__":
    main()
