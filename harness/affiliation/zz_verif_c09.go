package affiliation

// C09 (partial): the (interface, implementation) cache must skip a conversion only when exactly
// that pair was analysed before. Kernel (real code): (*Affiliation).computeTriggersForTypes,
// computeAfflitiationCacheKey, getFullyQualifiedName, createFunctionTriggers,
// annotation.FullTriggerForInterface{Result,Param}Flow.
//
// Two conversion events of one struct type S to interfaces I and J, in either order, the first
// one possibly known only through the upstream Cache fact. J may embed I and declare its own
// methods; method names decide the order of the method set. Natively the types come from the real
// type checker run on generated source; under symx the type-checker API is stubbed by its
// documented contract (method sets are complete and sorted by name; FullName names the DECLARING
// type; Named.String is the qualified type name).

import (
	"go/ast"
	"go/importer"
	"go/parser"
	"go/token"
	"go/types"
	"sort"
	"strings"

	"go.uber.org/nilaway/annotation"
	"go.uber.org/nilaway/config"
	"go.uber.org/nilaway/util/orderedmap"
	"golang.org/x/tools/go/analysis"
)

//verif:stub go.uber.org/nilaway/assertion/affiliation.c09World = c09WorldSym
//verif:stub go.uber.org/nilaway/assertion/affiliation.c09Conf = c09ConfSym
//verif:stub (*go/types.Interface).NumMethods = c09NumMethods
//verif:stub (*go/types.Interface).Method = c09Method
//verif:stub (*go/types.Func).FullName = c09FullName
//verif:stub (*go/types.Named).String = c09NamedString
//verif:stub (*go/types.Named).Underlying = c09NamedUnderlying
//verif:stub go/types.LookupFieldOrMethod = c09Lookup
//verif:stub (*go.uber.org/nilaway/config.Config).IsPkgInScope = c09InScope

var ndHarnesses = map[string]func(){"Harness_C09": Harness_C09, "Harness_C09_Real": Harness_C09_Real}

type c09Types struct {
	I, J, S       types.Type // named interface types and the struct type
	nI, nJ        int        // size of the full method sets
	resI, resJ    int        // triggers expected for (I,S) and (J,S): results+params over the method set
	sameInterface bool
}

type c09Shape struct {
	pkgPath  string   // import path of the package declaring I, J and S
	embedErr bool     // J also embeds the builtin interface `error` (its method Error belongs to no package)
	embed    bool     // J embeds I
	iNames   []string // methods declared by I
	jNames   []string // methods declared by J itself
	withArg  bool     // methods take one pointer parameter as well
}

func c09Source(sh c09Shape) string {
	sig := "() *int"
	body := "{ return nil }"
	if sh.withArg {
		sig = "(p *int) *int"
	}
	var b strings.Builder
	b.WriteString("package p\n\ntype I interface {\n")
	for _, m := range sh.iNames {
		b.WriteString("\t" + m + sig + "\n")
	}
	b.WriteString("}\n\ntype J interface {\n")
	if sh.embed {
		b.WriteString("\tI\n")
	}
	if sh.embedErr {
		b.WriteString("\terror\n")
	}
	for _, m := range sh.jNames {
		b.WriteString("\t" + m + sig + "\n")
	}
	b.WriteString("}\n\ntype S struct{}\n\n")
	if sh.embedErr {
		b.WriteString("func (S) Error() string { return \"\" }\n")
	}
	seen := map[string]bool{}
	for _, m := range append(append([]string{}, sh.iNames...), sh.jNames...) {
		if !seen[m] {
			seen[m] = true
			b.WriteString("func (S) " + m + sig + " " + body + "\n")
		}
	}
	return b.String()
}

// c09World (native): the real type checker.
func c09World(sh c09Shape) *c09Types {
	fset := token.NewFileSet()
	f, err := parser.ParseFile(fset, "p.go", c09Source(sh), 0)
	if err != nil {
		panic(err)
	}
	conf := types.Config{Importer: importer.Default()}
	pkg, err := conf.Check(sh.pkgPath, fset, []*ast.File{f}, nil)
	if err != nil {
		panic(err)
	}
	w := &c09Types{I: pkg.Scope().Lookup("I").Type(), J: pkg.Scope().Lookup("J").Type(), S: pkg.Scope().Lookup("S").Type()}
	per := 1
	if sh.withArg {
		per = 2
	}
	w.nI = w.I.Underlying().(*types.Interface).NumMethods()
	w.nJ = w.J.Underlying().(*types.Interface).NumMethods()
	w.resI, w.resJ = per*w.nI, per*w.nJ
	if sh.embedErr {
		w.resJ = per * (w.nJ - 1) // error.Error belongs to no package: out of scope, no triggers
	}
	return w
}

// c09Conf (native): the default configuration (every package in scope), obtained from the real config analyzer.
func c09Conf() *config.Config {
	res, err := config.Analyzer.Run(&analysis.Pass{Analyzer: config.Analyzer})
	if err != nil {
		panic(err)
	}
	return res.(*config.Config)
}

// ---- symx side: the type checker's query API by contract -----------------------------------

type c09IfaceInfo struct{ methods []*types.Func } // complete method set, sorted by name

var (
	c09Ifaces   map[*types.Interface]*c09IfaceInfo
	c09FullNm   map[*types.Func]string
	c09NamedStr map[*types.Named]string
	c09Under    map[*types.Named]types.Type
	c09Methods  map[string]*types.Func // methods of S by name
)

func c09NumMethods(t *types.Interface) int            { return len(c09Ifaces[t].methods) }
func c09Method(t *types.Interface, i int) *types.Func { return c09Ifaces[t].methods[i] }
func c09FullName(f *types.Func) string                { return c09FullNm[f] }
func c09NamedString(n *types.Named) string            { return c09NamedStr[n] }
func c09NamedUnderlying(n *types.Named) types.Type    { return c09Under[n] }
func c09Lookup(T types.Type, addressable bool, pkg *types.Package, name string) (types.Object, []int, bool) {
	if m, ok := c09Methods[name]; ok {
		return m, nil, false
	}
	return nil, nil, false
}
func c09InScope(c *config.Config, pkg *types.Package) bool { return pkg != nil } // default scope: every package; the universe (nil) is never in scope
func c09ConfSym() *config.Config                           { return &config.Config{} }

func c09WorldSym(sh c09Shape) *c09Types {
	c09Ifaces = map[*types.Interface]*c09IfaceInfo{}
	c09FullNm = map[*types.Func]string{}
	c09NamedStr = map[*types.Named]string{}
	c09Under = map[*types.Named]types.Type{}
	c09Methods = map[string]*types.Func{}
	pkg := new(types.Package)
	mkSig := func() *types.Signature {
		var params *types.Tuple
		if sh.withArg {
			params = types.NewTuple(types.NewVar(token.NoPos, pkg, "p", nil))
		}
		return types.NewSignatureType(nil, nil, nil, params, types.NewTuple(types.NewVar(token.NoPos, pkg, "", nil)), false)
	}
	declare := func(owner string, names []string) []*types.Func {
		var fs []*types.Func
		for _, n := range names {
			f := types.NewFunc(token.NoPos, pkg, n, mkSig())
			c09FullNm[f] = "(" + sh.pkgPath + "." + owner + ")." + n // FullName names the declaring type
			fs = append(fs, f)
		}
		return fs
	}
	iOwn := declare("I", sh.iNames)
	jOwn := declare("J", sh.jNames)
	set := func(groups ...[]*types.Func) []*types.Func {
		byName := map[string]*types.Func{}
		var names []string
		for _, g := range groups {
			for _, f := range g {
				if _, dup := byName[f.Name()]; !dup {
					byName[f.Name()] = f
					names = append(names, f.Name())
				}
			}
		}
		sort.Strings(names)
		out := make([]*types.Func, len(names))
		for k, n := range names {
			out[k] = byName[n]
		}
		return out
	}
	iface := func(name string, methods []*types.Func) types.Type {
		it := new(types.Interface)
		c09Ifaces[it] = &c09IfaceInfo{methods: methods}
		named := types.NewNamed(types.NewTypeName(token.NoPos, pkg, name, nil), nil, nil)
		c09NamedStr[named] = sh.pkgPath + "." + name
		c09Under[named] = it
		return named
	}
	var errOwn []*types.Func
	if sh.embedErr {
		ef := types.NewFunc(token.NoPos, nil, "Error", types.NewSignatureType(nil, nil, nil, nil, types.NewTuple(types.NewVar(token.NoPos, nil, "", nil)), false))
		c09FullNm[ef] = "(error).Error"
		errOwn = []*types.Func{ef}
		c09Methods["Error"] = types.NewFunc(token.NoPos, pkg, "Error", mkSig())
	}
	w := &c09Types{}
	w.I = iface("I", set(iOwn))
	if sh.embed {
		w.J = iface("J", set(iOwn, jOwn, errOwn)) // embedded methods keep their declaring interface
	} else {
		w.J = iface("J", set(jOwn, errOwn))
	}
	s := types.NewNamed(types.NewTypeName(token.NoPos, pkg, "S", nil), nil, nil)
	c09NamedStr[s] = sh.pkgPath + ".S"
	c09Under[s] = types.NewStruct(nil, nil)
	w.S = s
	for _, n := range append(append([]string{}, sh.iNames...), sh.jNames...) {
		if _, ok := c09Methods[n]; !ok {
			c09Methods[n] = types.NewFunc(token.NoPos, pkg, n, mkSig())
		}
	}
	per := 1
	if sh.withArg {
		per = 2
	}
	w.nI = len(c09Ifaces[c09Under[w.I.(*types.Named)].(*types.Interface)].methods)
	w.nJ = len(c09Ifaces[c09Under[w.J.(*types.Named)].(*types.Interface)].methods)
	w.resI, w.resJ = per*w.nI, per*w.nJ
	if sh.embedErr {
		w.resJ = per * (w.nJ - 1)
	}
	return w
}

func Harness_C09() {
	sh := c09Shape{pkgPath: "m/p", embed: ndChoice("j_embeds_i", 2) == 1, withArg: ndChoice("methods_take_arg", 2) == 1, embedErr: ndChoice("j_embeds_error", 2) == 1}
	sh.iNames = [][]string{{"M"}, {"M", "N"}}[ndChoice("i_methods", 2)]
	// J's own methods sort before ("A"), between/after ("Z") I's, or J declares nothing of its own / the same names
	switch ndChoice("j_methods", 5) {
	case 0:
		sh.jNames = []string{"A"}
	case 1:
		sh.jNames = []string{"Z"}
	case 2:
		sh.jNames = []string{"A", "Z"}
	case 3:
		sh.jNames = nil
	case 4:
		sh.jNames = []string{"M"} // same method name declared again (no embedding) - a different interface with an equal first method name
	}
	if !sh.embed && len(sh.jNames) == 0 && !sh.embedErr {
		return // J would be the empty interface: nothing to analyse
	}
	if sh.embed && len(sh.jNames) == 1 && sh.jNames[0] == "M" {
		return // duplicate method in J: does not type-check
	}
	w := c09World(sh)
	a := &Affiliation{conf: c09Conf()}
	upstream := orderedmap.New[Pair, bool]()
	current := orderedmap.New[Pair, bool]()
	if ndChoice("dependency_has_same_named_types", 2) == 1 {
		// a dependency "m/q" declares its own, unrelated I, J and S with the same bare names and converted
		// S to both interfaces; its Cache fact reaches this package
		shq := sh
		shq.pkgPath = "m/q"
		wq := c09World(shq)
		aq := &Affiliation{conf: c09Conf()}
		upq := orderedmap.New[Pair, bool]()
		aq.computeTriggersForTypes(wq.I, wq.S, orderedmap.New[Pair, bool](), upq)
		aq.computeTriggersForTypes(wq.J, wq.S, orderedmap.New[Pair, bool](), upq)
		for _, p := range upq.Pairs {
			upstream.Store(p.Key, p.Value)
		}
		w = c09World(sh) // (the stub side tables are per world: rebuild the local one last)
	}
	firstIsI := ndChoice("first_event_is_I", 2) == 1
	viaUpstream := ndChoice("first_event_seen_upstream", 2) == 1
	first, second := w.J, w.I
	wantSecond := w.resI
	if firstIsI {
		first, second, wantSecond = w.I, w.J, w.resJ
	}
	var t1 []annotation.FullTrigger
	if viaUpstream {
		// an upstream package analysed the first conversion: its Cache fact holds the pair
		up := orderedmap.New[Pair, bool]()
		t1 = a.computeTriggersForTypes(first, w.S, orderedmap.New[Pair, bool](), up)
		for _, p := range up.Pairs {
			upstream.Store(p.Key, p.Value)
		}
	} else {
		t1 = a.computeTriggersForTypes(first, w.S, upstream, current)
	}
	t2 := a.computeTriggersForTypes(second, w.S, upstream, current)
	ndObserveInt("first_triggers", len(t1))
	ndObserveInt("second_triggers", len(t2))
	// I and J are different interfaces in every generated shape, so the second conversion is a
	// different pair and must be analysed in full
	label := ""
	if sh.embed {
		label = "[second_interface_embeds_or_is_embedded_in_first]"
	}
	ndAssert("C09.second_conversion_of_a_different_pair_is_not_skipped"+label, len(t2) == wantSecond)
	// the same pair again is skipped
	t3 := a.computeTriggersForTypes(second, w.S, upstream, current)
	ndAssert("C09.same_pair_is_analysed_once", len(t3) == 0)
}
