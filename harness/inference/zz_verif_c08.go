package inference

// C08 (partial) - the (value, error) convention at the package level. Kernel (real code):
// assertiontree.FilterTriggersForErrorReturn and Engine.ObservePackage steps 1-4
// (mapGuardMissingAndReturnToFuncSite, the slices.DeleteFunc filter, the two buildPkgInferenceMap
// rounds and the producer-nilability callback).

//verif:use zz_verif_c05l2.go

import (
	"go/ast"
	"go/token"

	"go.uber.org/nilaway/annotation"
	"go.uber.org/nilaway/assertion/function/assertiontree"
)

// ---- K1: FilterTriggersForErrorReturn with symbolic producer nilabilities -------------------

const (
	c08Err    = iota // consumer UseAsErrorRetWithNilabilityUnknown of return statement s
	c08NonErr        // consumer UseAsNonErrorRetDependentOnErrorRetNilability of return statement s
	c08Other         // any other consumer
)

func Harness_C08_Filter() {
	c05NewPass()
	NS := ndParam("STMTS", 2)
	N := ndParam("N", 3)
	n := 1 + ndChoice("n", N)
	stmts := make([]*ast.ReturnStmt, NS)
	for i := range stmts {
		stmts[i] = &ast.ReturnStmt{Return: token.Pos(500 + i)}
	}
	fn := c05NewFunc(token.Pos(300))
	kinds := make([]int, n)
	stmt := make([]int, n)
	nilab := make([]int, n) // symbolic: what the callback answers for trigger i's producer
	triggers := make([]annotation.FullTrigger, n)
	prodIndex := map[*annotation.ProduceTrigger]int{}
	for i := 0; i < n; i++ {
		kinds[i] = ndChoice("kind", 3)
		stmt[i] = ndChoice("stmt", NS)
		nilab[i] = ndInt("nilability", 0, 2)
		p := &annotation.ProduceTrigger{Annotation: &annotation.TriggerIfNilable{Ann: l2Key(l2Ref{kind: 0, idx: i})}, Expr: &ast.Ident{Name: "p"}}
		prodIndex[p] = i
		var c annotation.ConsumingAnnotationTrigger
		switch kinds[i] {
		case c08Err:
			c = &annotation.UseAsErrorRetWithNilabilityUnknown{TriggerIfNonNil: &annotation.TriggerIfNonNil{Ann: &annotation.RetAnnotationKey{FuncDecl: fn, RetNum: 1}}, RetStmt: stmts[stmt[i]]}
		case c08NonErr:
			c = &annotation.UseAsNonErrorRetDependentOnErrorRetNilability{TriggerIfNonNil: &annotation.TriggerIfNonNil{Ann: &annotation.RetAnnotationKey{FuncDecl: fn, RetNum: 0}}, RetStmt: stmts[stmt[i]]}
		default:
			c = &annotation.PtrLoad{ConsumeTriggerTautology: &annotation.ConsumeTriggerTautology{}}
		}
		triggers[i] = annotation.FullTrigger{Producer: p, Consumer: &annotation.ConsumeTrigger{Annotation: c, Expr: &ast.Ident{Name: "e", NamePos: token.Pos(1001 + i)}}}
	}
	orig := append([]annotation.FullTrigger(nil), triggers...)
	origConsumers := make([]*annotation.ConsumeTrigger, n)
	for i := range orig {
		origConsumers[i] = orig[i].Consumer
	}
	filtered, deleted := assertiontree.FilterTriggersForErrorReturn(triggers, func(p *annotation.ProduceTrigger) assertiontree.ProducerNilability {
		return assertiontree.ProducerNilability(nilab[prodIndex[p]])
	})
	ndObserveInt("kept", len(filtered))
	// specification, per return statement
	for i := 0; i < n; i++ {
		someNil, someNonnil := false, false
		for j := 0; j < n; j++ {
			if kinds[j] == c08Err && stmt[j] == stmt[i] {
				someNil = ndOr(someNil, nilab[j] == int(assertiontree.ProducerIsNil))
				someNonnil = ndOr(someNonnil, nilab[j] == int(assertiontree.ProducerIsNonNil))
			}
		}
		wantDeleted := false
		switch kinds[i] {
		case c08Err:
			wantDeleted = someNil // the error may be nil on some path: its trigger is settled
		case c08NonErr:
			wantDeleted = ndAnd(someNonnil, ndNot(someNil)) // error definitely non-nil: value results need not be checked
		}
		gotDeleted := deleted[orig[i]]
		inFiltered := 0
		var kept annotation.FullTrigger
		for _, t := range filtered {
			if t.Producer == orig[i].Producer {
				inFiltered++
				kept = t
			}
		}
		ndAssert("C08.K1.trigger_deleted_iff_convention_settles_it", ndIff(gotDeleted, wantDeleted))
		ndAssert("C08.K1.deleted_triggers_are_exactly_the_missing_ones", (inFiltered == 0) == gotDeleted && inFiltered <= 1)
		if inFiltered == 1 {
			switch kinds[i] {
			case c08NonErr:
				// kept under "error is nil": becomes a plain return use on the same site and expression
				_, isRet := kept.Consumer.Annotation.(*annotation.UseAsReturn)
				onlyNil := ndAnd(someNil, ndNot(someNonnil))
				ndAssert("C08.K1.value_result_under_nil_error_becomes_a_return_use", ndIff(isRet, onlyNil))
				ndAssert("C08.K1.rewritten_consumer_keeps_site_and_expression",
					kept.Consumer.Expr == origConsumers[i].Expr && kept.Consumer.Annotation.UnderlyingSite().String() == origConsumers[i].Annotation.UnderlyingSite().String())
			case c08Err:
				_, isErrRes := kept.Consumer.Annotation.(*annotation.UseAsErrorResult)
				ndAssert("C08.K1.error_result_under_nonnil_error_becomes_an_error_result_use", ndIff(isErrRes, ndAnd(someNonnil, ndNot(someNil))))
			default:
				ndAssert("C08.K1.other_triggers_are_untouched", kept.Consumer == origConsumers[i])
			}
		}
	}
	// order of survivors is the input order
	last := -1
	ordered := true
	for _, t := range filtered {
		k := prodIndex[t.Producer]
		if k <= last {
			ordered = false
		}
		last = k
	}
	ndAssert("C08.K1.survivors_keep_their_order", ordered)
}

// ---- K2: ObservePackage across its two inference rounds -------------------------------------
//
// f returns (v, err):  `return nil, e2()`  where e2's result turns out nilable in this package, so
// the value result of f is nilable even when err == nil. A caller passes f's value to a function g
// with an inferred nonnil->nonnil contract and dereferences g's result. The nil flow is
//   nil -> result 0 of f -> argument of g at the call site -> [contract] result of g at the call site -> dereference
// The value-result trigger of f is only incorporated in the second round (step 4).

func c08Ret(fnPos, n int) l2Ref { return l2Ref{kind: 2, idx: fnPos*2 + n} }

func Harness_C08_Rounds() {
	pass := c05NewPass()
	rec := &c05Rec{}
	e := NewEngine(pass, rec)
	f := c05NewFunc(token.Pos(300))
	e2 := c05NewFunc(token.Pos(310))
	s := &ast.ReturnStmt{Return: token.Pos(500)}
	fRet0 := &annotation.RetAnnotationKey{FuncDecl: f, RetNum: 0}
	fRet1 := &annotation.RetAnnotationKey{FuncDecl: f, RetNum: 1}
	e2Ret := &annotation.RetAnnotationKey{FuncDecl: e2, RetNum: 1}
	ctl := l2Ref{kind: 1, idx: 0}
	b := l2Ref{kind: 0, idx: 1}
	expr := func(k int) ast.Expr { return &ast.Ident{Name: "e", NamePos: token.Pos(1001 + k)} }
	cons := func(a annotation.ConsumingAnnotationTrigger, k int) *annotation.ConsumeTrigger {
		return &annotation.ConsumeTrigger{Annotation: a, Expr: expr(k)}
	}
	prod := func(key annotation.Key) *annotation.ProduceTrigger {
		return &annotation.ProduceTrigger{Annotation: &annotation.TriggerIfNilable{Ann: key}, Expr: &ast.Ident{Name: "p"}}
	}
	// which round makes f's value result nilable: 0 = first round (plain return use), 1 = second round (convention-dependent use)
	late := ndChoice("value_result_incorporated_in_second_round", 2) == 1
	var valueUse annotation.ConsumingAnnotationTrigger
	if late {
		valueUse = &annotation.UseAsNonErrorRetDependentOnErrorRetNilability{TriggerIfNonNil: &annotation.TriggerIfNonNil{Ann: fRet0}, RetStmt: s}
	} else {
		valueUse = &annotation.UseAsReturn{TriggerIfNonNil: &annotation.TriggerIfNonNil{Ann: fRet0}, RetStmt: s}
	}
	triggers := []annotation.FullTrigger{
		// contract of g duplicated at the call site: if the argument is nilable, so is the result (site b)
		l2Trigger(0, l2Op{kind: l2CtlSrc, c: ctl, b: b}),
		// the value result of f flows into the argument of g
		{Producer: prod(fRet0), Consumer: l2Consumer(ctl, 1)},
		// return nil, e2()
		{Producer: l2Always(), Consumer: cons(valueUse, 2)},
		{Producer: prod(e2Ret), Consumer: cons(&annotation.UseAsErrorRetWithNilabilityUnknown{TriggerIfNonNil: &annotation.TriggerIfNonNil{Ann: fRet1}, RetStmt: s}, 3)},
		// e2 returns a nil error
		{Producer: l2Always(), Consumer: cons(&annotation.UseAsReturn{TriggerIfNonNil: &annotation.TriggerIfNonNil{Ann: e2Ret}}, 4)},
		// the caller dereferences g's result
		{Producer: l2Producer(b), Consumer: l2Must(5)},
	}
	// the triggers arrive in any order
	n := len(triggers)
	perm := make([]annotation.FullTrigger, 0, n)
	rest := append([]annotation.FullTrigger(nil), triggers...)
	for len(rest) > 0 {
		j := 0
		if len(rest) > 1 {
			j = ndChoice("order", len(rest))
		}
		perm = append(perm, rest[j])
		rest = append(rest[:j:j], rest[j+1:]...)
	}
	e.ObservePackage(perm)
	got := len(rec.over)+rec.single > 0
	ndObserveBool("conflict", got)
	id := "C08.K2.nil_value_with_possibly_nil_error_reaches_the_dereference"
	if late {
		id += "[controller_determined_in_second_round]"
	}
	ndAssert(id, got)
}
