package accumulation

// P01Y: the C01 grammar spread over a CHAIN of three packages. m/q declares the package-level pointer and the
// callee; m/r imports m/q and re-exports the callee through a forwarding function Mid; m/p imports both and holds
// Entry, which calls r.Mid and uses q.G. Each package is analysed in turn by the real pipeline; a package sees the
// facts of ALL packages below it (as drivers hand them out: direct and transitive dependencies), through a fresh
// type-check of their sources. With DIRECT=0 the top package does not import the base at all (it uses accessor functions of
// the middle package), so the base's facts - inferred map and nolint ranges - reach it only transitively; with NOLINT the base
// package's dereference carries a nolint comment. Obligations as in Harness_P01X, plus C03: the same program as ONE package (the
// dependencies' declarations first) gets equally many diagnostics.

//verif:use zz_verif_pipe.go

import (
	"strconv"
	"strings"
)

func Harness_P01Y() {
	n := ndParam("STMTS", 2)
	compound := ndParam("COMPOUND", 5)
	g := &p01Gen{x: true, y: true, g: true, live: true, calleeKind: -1, simple: ndParam("SIMPLE", 9)}
	// DIRECT=1: the top package also imports the base package; DIRECT=0: it reaches the base only through the middle
	// package (accessor functions for the package-level pointer), so the base's facts arrive only transitively
	direct := ndChoice("top_imports_base", ndParam("DIRECT", 2)) == 1
	g.emit("package p")
	if direct {
		g.emit("import (\"m/q\"; \"m/r\")")
	} else {
		g.emit("import \"m/r\"")
	}
	g.emit("var flag0, flag1, flag2, flag3 bool")
	if direct {
		g.emit("var _ = q.Calleeflag")
	} else {
		g.emit("var _ = 0")
	}
	g.emit("var _ = r.Mid")
	g.emit("func Entry() {")
	g.emit("\tvar x, y *int")
	for k := 0; k < n; k++ {
		g.stmt(compound)
	}
	g.emit("\t_, _ = x, y")
	g.emit("}")
	base := g.b.String()
	src := strings.NewReplacer("callee(", "r.Mid(", "x = g\n", "x = q.G\n", "g = x\n", "q.G = x\n", "*g\n", "*q.G\n").Replace(base)
	if !direct {
		src = strings.NewReplacer("callee(", "r.Mid(", "x = g\n", "x = r.GetG()\n", "g = x\n", "r.SetG(x)\n", "*g\n", "*r.GetG()\n").Replace(base)
	}
	// m/q always has a callee here (Mid forwards to it); when Entry never calls, the identity shape is used
	kind := g.calleeKind
	if kind < 0 {
		kind = 0
	}
	depQ, calleeDeref := p01xDep(kind, false)
	// a nolint comment on the base package's dereference: the suppression must follow the flow into the top package
	nolint := calleeDeref > 0 && ndChoice("nolint_in_base", ndParam("NOLINT", 2)) == 1
	if nolint {
		depQ = strings.Replace(depQ, "\t_ = *a\n", "\t_ = *a //nolint:nilaway\n", 1)
	}
	depR := "package r\n\nimport \"m/q\"\n\nfunc Mid(a *int) *int { return q.Callee(a) }\n\nfunc GetG() *int { return q.G }\n\nfunc SetG(v *int) { q.G = v }\n"
	ndObserveStr("source_q", depQ)
	ndObserveStr("source_p", src)

	rq, factsQ := pipeAnalysePkg("m/q", "q.go", depQ, nil)
	dq := pipeDep{path: "m/q", file: "q.go", src: depQ, facts: factsQ}
	rr, factsR := pipeAnalysePkg("m/r", "r.go", depR, []pipeDep{dq})
	dr := pipeDep{path: "m/r", file: "r.go", src: depR, facts: factsR}
	rp, _ := pipeAnalysePkg("m/p", "p.go", src, []pipeDep{dq, dr})

	internal := false
	total := 0
	at := map[string]bool{}
	for _, r := range []pipeResult{rq, rr, rp} {
		if r.panicked != "" || len(r.funcErrs) > 0 {
			internal = true
		}
		total += len(r.diags)
		for _, d := range r.diags {
			ndObserveStr("diag", d.Message)
			if strings.Contains(d.Message, "INTERNAL") {
				internal = true
			}
			pos := r.fset.Position(d.Pos)
			at[pos.Filename+":"+strconv.Itoa(pos.Line)] = true
		}
	}
	ndObserveInt("diagnostics", total)
	ndAssert("P01.A4.no_internal_failure", !internal)
	reported := total > 0
	if !nolint {
		ndAssert("P01.A1.a_reachable_nil_dereference_is_reported", ndImplies(g.panics, reported))
	}
	nUnchecked := len(g.unchecked)
	if nolint {
		nUnchecked = -1 // the suppressed dereference takes the line-specific obligations out
	}
	if calleeDeref > 0 && g.calleeKind >= 0 && !nolint {
		nUnchecked++
	}
	if nUnchecked == 0 && g.calleeKind != 3 {
		ndAssert("P01.A2.a_program_with_only_nil_checked_dereferences_is_not_reported", !reported)
	}
	if nUnchecked == 1 {
		if calleeDeref > 0 && g.calleeKind >= 0 {
			ndAssert("P01.A3.the_only_unchecked_dereference_is_reported_at_its_line", ndImplies(g.panics, at["q.go:"+strconv.Itoa(calleeDeref)]))
		} else if len(g.unchecked) == 1 {
			ndAssert("P01.A3.the_only_unchecked_dereference_is_reported_at_its_line", ndImplies(g.uncheckedP[0], at["p.go:"+strconv.Itoa(g.unchecked[0])]))
		}
	}

	// C03: one package with the same declarations in dependency order
	entry := base[strings.Index(base, "func Entry()"):]
	entry = strings.ReplaceAll(entry, "callee(", "mid(")
	if !direct {
		entry = strings.NewReplacer("x = g\n", "x = getG()\n", "g = x\n", "setG(x)\n", "*g\n", "*getG()\n").Replace(entry)
	}
	calleeText := strings.NewReplacer("package q\n", "", "Calleeflag", "calleeflag", "var G ", "var g ", "func Callee(", "func callee(", "return G\n", "return g\n").Replace(depQ)
	whole := "package p\n\nvar flag0, flag1, flag2, flag3 bool\n" + calleeText + "\nfunc mid(a *int) *int { return callee(a) }\n\nfunc getG() *int { return g }\n\nfunc setG(v *int) { g = v }\n\n" + entry
	rw := pipeAnalyse(whole)
	ndObserveInt("diagnostics_whole_program", len(rw.diags))
	ndAssert("C03.X.three_package_chain_is_reported_iff_the_whole_program_is", (len(rw.diags) > 0) == (total > 0))
	if direct {
		// (when the package-level pointer is reached through accessor functions the whole-program run lists a second
		// explanation for the same dereference - nil stored by SetG besides the missing initialiser - which the modular run,
		// having fixed the variable's verdict in the base package, does not repeat; counts are compared for DIRECT=1 only)
		ndAssert("C03.X.three_package_chain_reports_as_many_diagnostics_as_the_whole_program", len(rw.diags) == total)
	}
}
