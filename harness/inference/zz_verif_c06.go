package inference

// C06 / C03: exported facts preserve every flow between visible sites; modular = whole-program at
// the engine level (DESIGN.md section 4, C06 and C03).
//
// Kernel (real code): InferredMap.Export, chooseSitesToExport (both marking closures),
// inferredValDiff, UndeterminedVal.copy, Engine.ObserveUpstream (incl. the sort by package path and
// the upstreamMapping snapshot), newPrimitivizer's fact scan, orderedmap.rehydrate, and the L1
// observe* functions.
//
// A package DAG (chain of 2, chain of 3, diamond of 4) is analysed package by package; every
// package observes <= NP symbolic constraints, exports, and the fact crosses the boundary through
// the codec (natively the real gob+s2 encode/decode; under symx a structural copy with the
// unexported index dropped, which is what decoding yields). Importers receive the facts of all
// transitive dependencies in every order. Sites are owned by packages; a package may mention its
// own sites and exported sites of its dependencies. Oracle: the order-free reachability reference
// over the UNION of all constraints (whole-program view).

import (
	"go/token"
	"go/types"

	"go.uber.org/nilaway/util/analysishelper"
	"go.uber.org/nilaway/util/orderedmap"
	"golang.org/x/tools/go/analysis"
)

//verif:stub go.uber.org/nilaway/inference.c06Codec = c06CodecSym
//verif:stub go.uber.org/nilaway/inference.c06NewPkg = c06NewPkgSym
//verif:stub (*go/types.Package).Path = c06PkgPathSym

var c06Registered bool

// c06Codec: the fact as the importer sees it.
func c06Codec(m *InferredMap) *InferredMap {
	if !c06Registered {
		GobRegister()
		c06Registered = true
	}
	b, err := m.GobEncode()
	if err != nil {
		panic(err)
	}
	out := &InferredMap{}
	if err := out.GobDecode(b); err != nil {
		panic(err)
	}
	return out
}

func c06CopyEdges(s *orderedmap.OrderedMap[primitiveSite, primitiveFullTrigger]) *orderedmap.OrderedMap[primitiveSite, primitiveFullTrigger] {
	out := &orderedmap.OrderedMap[primitiveSite, primitiveFullTrigger]{}
	if s == nil {
		return out
	}
	for _, p := range s.Pairs {
		out.Pairs = append(out.Pairs, &orderedmap.Pair[primitiveSite, primitiveFullTrigger]{Key: p.Key, Value: p.Value})
	}
	return out
}

// c06CodecSym models gob: exported fields only (Pairs), fresh pointers, no inner index.
func c06CodecSym(m *InferredMap) *InferredMap {
	out := &InferredMap{upstreamMapping: map[primitiveSite]InferredVal{}}
	out.mapping = &orderedmap.OrderedMap[primitiveSite, InferredVal]{}
	for _, p := range m.mapping.Pairs {
		var v InferredVal
		switch x := p.Value.(type) {
		case *DeterminedVal:
			v = &DeterminedVal{Bool: x.Bool}
		case *UndeterminedVal:
			v = &UndeterminedVal{Implicants: c06CopyEdges(x.Implicants), Implicates: c06CopyEdges(x.Implicates)}
		}
		out.mapping.Pairs = append(out.mapping.Pairs, &orderedmap.Pair[primitiveSite, InferredVal]{Key: p.Key, Value: v})
	}
	return out
}

var c06PkgNames map[*types.Package]string

func c06NewPkg(path string) *types.Package { return types.NewPackage(path, "p") }
func c06NewPkgSym(path string) *types.Package {
	p := new(types.Package)
	c06PkgNames[p] = path
	return p
}
func c06PkgPathSym(p *types.Package) string { return c06PkgNames[p] }

// topologies: deps[k] = packages whose facts package k receives (transitive closure of imports)
func c06Topology(t int) [][]int {
	switch t {
	case 0: // A <- B
		return [][]int{{}, {0}}
	case 1: // A <- B <- C (C imports only B; facts are transitive)
		return [][]int{{}, {0}, {0, 1}}
	case 2: // diamond A <- {B, C} <- D
		return [][]int{{}, {0}, {0}, {0, 1, 2}}
	default: // fan: base A <- three siblings {B, C, D} <- top E
		return [][]int{{}, {0}, {0}, {0}, {0, 1, 2, 3}}
	}
}

type c06World struct {
	SP   int    // sites per package
	expv []bool // exported flag per global site index
}

func (w *c06World) site(idx int) primitiveSite {
	exp := false
	for i := range w.expv {
		exp = ndOr(exp, ndAnd(idx == i, w.expv[i]))
	}
	return primitiveSite{Position: token.Position{Filename: "f.go", Offset: idx, Line: 1, Column: 1}, PkgPath: "p", Repr: "site", Exported: exp}
}

func (w *c06World) apply(e *Engine, k int, op c05Op) {
	a := w.site(op.a)
	switch op.kind {
	case c05Source:
		e.observeSiteExplanation(a, TrueBecauseShallowConstraint{ExternalAssertion: c05Tag(k)})
	case c05Sink:
		e.observeSiteExplanation(a, FalseBecauseShallowConstraint{ExternalAssertion: c05Tag(k)})
	case c05Edge:
		e.observeImplication(a, w.site(op.b), c05Tag(k))
	case c05AnnNil:
		e.observeSiteExplanation(a, TrueBecauseAnnotation{AnnotationPos: a.Position})
	case c05AnnNonnil:
		e.observeSiteExplanation(a, FalseBecauseAnnotation{AnnotationPos: a.Position})
	}
}

// visible: site idx may be mentioned by package k iff k owns it or a dependency owns it and it is exported.
func (w *c06World) visible(k int, deps []int, idx int) bool {
	own := ndAnd(idx >= k*w.SP, idx < (k+1)*w.SP)
	vis := own
	for _, d := range deps {
		inD := ndAnd(idx >= d*w.SP, idx < (d+1)*w.SP)
		exp := false
		for i := d * w.SP; i < (d+1)*w.SP; i++ {
			exp = ndOr(exp, ndAnd(idx == i, w.expv[i]))
		}
		vis = ndOr(vis, ndAnd(inD, exp))
	}
	return vis
}

func c06SiteEq(a, b primitiveSite) bool { return a.Position.Offset == b.Position.Offset }

func Harness_C06() {
	topo := ndParam("TOPO", 0)
	SP := ndParam("SP", 2)
	NP := ndParam("NP", 2)
	KINDS := ndParam("KINDS", 3) // 3: source/sink/flow; 5: also annotations
	c06PkgNames = map[*types.Package]string{}
	deps := c06Topology(topo)
	P := len(deps)
	S := P * SP
	w := &c06World{SP: SP, expv: make([]bool, S)}
	for i := range w.expv {
		w.expv[i] = ndBool("exported")
	}
	names := []string{"m/a", "m/b", "m/c", "m/d", "m/e"}
	// per-package bound on the number of constraints: NP unless NP<k> is given
	maxOps := func(k int) int {
		return ndParam("NP"+string(rune('0'+k)), NP)
	}
	// ONLYBASE=1: every package may mention the base package's sites only (keeps the fan topology small)
	onlyBase := ndParam("ONLYBASE", 0) == 1
	pkgs := make([]*types.Package, P)
	facts := make([]*InferredMap, P) // decoded fact published by each package (nil if none)
	recs := make([]*c05Rec, P)
	var allOps []c05Op
	var last *Engine
	tagBase := 0
	for k := 0; k < P; k++ {
		pkgs[k] = c06NewPkg(names[k])
		// facts of all transitive dependencies, handed over in a symbolically chosen order
		var incoming []analysis.PackageFact
		var avail []int
		for _, d := range deps[k] {
			if facts[d] != nil {
				avail = append(avail, d)
			}
		}
		for len(avail) > 0 {
			j := 0
			if len(avail) > 1 {
				j = ndChoice("fact_order", len(avail))
			}
			d := avail[j]
			avail = append(avail[:j:j], avail[j+1:]...)
			incoming = append(incoming, analysis.PackageFact{Package: pkgs[d], Fact: facts[d]})
		}
		var exported *InferredMap
		pass := analysishelper.NewEnhancedPass(&analysis.Pass{
			Pkg:               pkgs[k],
			AllPackageFacts:   func() []analysis.PackageFact { return incoming },
			ExportPackageFact: func(f analysis.Fact) { exported = f.(*InferredMap) },
		})
		recs[k] = &c05Rec{}
		e := NewEngine(pass, recs[k])
		e.ObserveUpstream()
		n := ndChoice("n", maxOps(k)+1)
		hi := S - 1
		if onlyBase {
			hi = SP - 1
		}
		for j := 0; j < n; j++ {
			var op c05Op
			op.kind = ndChoice("kind", KINDS)
			op.a = ndInt("a", 0, hi)
			ndAssume(w.visible(k, deps[k], op.a))
			if op.kind == c05Edge {
				op.b = ndInt("b", 0, hi)
				ndAssume(w.visible(k, deps[k], op.b))
			}
			w.apply(e, tagBase+len(allOps), op)
			allOps = append(allOps, op)
		}
		e.inferredMap.Export(pass)
		if exported != nil {
			// A2': the increment repeats nothing a dependency already published
			okA2 := true
			for _, p := range exported.mapping.Pairs {
				if dv, ok := p.Value.(*DeterminedVal); ok {
					for _, d := range deps[k] {
						if facts[d] == nil {
							continue
						}
						for _, q := range facts[d].mapping.Pairs {
							if qv, ok := q.Value.(*DeterminedVal); ok && qv.Bool.Val() == dv.Bool.Val() {
								okA2 = ndAnd(okA2, ndNot(c06SiteEq(p.Key, q.Key)))
							}
						}
					}
				}
			}
			ndAssert("C06.A2.increment_omits_what_dependencies_published", okA2)
			facts[k] = c06Codec(exported)
			// A4: decoding yields the same information
			ndAssert("C06.A4.decoded_fact_same_length", len(facts[k].mapping.Pairs) == len(exported.mapping.Pairs))
			okA4 := true
			for _, p := range exported.mapping.Pairs {
				v1, ok1 := exported.Load(p.Key)
				v2, ok2 := facts[k].Load(p.Key)
				same := ok1 && ok2
				if same {
					switch x := v1.(type) {
					case *DeterminedVal:
						y, ok := v2.(*DeterminedVal)
						same = ok && y.Bool.Val() == x.Bool.Val()
					case *UndeterminedVal:
						y, ok := v2.(*UndeterminedVal)
						same = ok && len(y.Implicants.Pairs) == len(x.Implicants.Pairs) && len(y.Implicates.Pairs) == len(x.Implicates.Pairs)
					}
				}
				okA4 = okA4 && same
			}
			ndAssert("C06.A4.decoded_fact_same_content", okA4)
		}
		// (A3, "every verdict on an exported site is published", is asserted in Harness_C06_Export
		// where there is no upstream. With upstream facts a verdict that is DERIVABLE from the
		// dependencies' facts is deliberately not re-published: importers receive those facts
		// transitively and re-derive it; A1 below checks exactly that.)
		last = e
	}
	// A1: modular == whole-program
	ref := c05Reference(S, allOps)
	modular := false
	nconf := 0
	for _, r := range recs {
		if len(r.over)+r.single > 0 {
			modular = true
		}
		nconf += len(r.over) + r.single
	}
	ndObserveBool("conflict", modular)
	ndObserveInt("n_conflicts", nconf)
	ndAssert("C06.A1.modular_conflict_iff_whole_program_conflict", ndIff(modular, ref.conflict))
	if modular {
		return
	}
	// verdicts the last package sees on sites visible to it equal whole-program reachability
	k := P - 1
	okNil, okNonnil, okUndet := true, true, true
	last.inferredMap.OrderedRange(func(site primitiveSite, val InferredVal) bool {
		o := site.Position.Offset
		vis := w.visible(k, deps[k], o)
		switch v := val.(type) {
		case *DeterminedVal:
			if v.Bool.Val() {
				okNil = ndAnd(okNil, c05Sel(o, ref.fromSrc))
			} else {
				okNonnil = ndAnd(okNonnil, c05Sel(o, ref.toSink))
			}
		case *UndeterminedVal:
			okUndet = ndAnd(okUndet, ndImplies(vis, ndAnd(ndNot(c05Sel(o, ref.fromSrc)), ndNot(c05Sel(o, ref.toSink)))))
		}
		return true
	})
	ndAssert("C06.A1.nilable_verdict_is_whole_program_reachability", okNil)
	ndAssert("C06.A1.nonnil_verdict_is_whole_program_reachability", okNonnil)
	ndAssert("C06.A1.visible_undetermined_site_is_unconstrained_whole_program", okUndet)
	// and every visible site that whole-program analysis determines is determined for the last package
	okKnown := true
	for i := 0; i < S; i++ {
		det := false
		last.inferredMap.OrderedRange(func(site primitiveSite, val InferredVal) bool {
			if _, ok := val.(*DeterminedVal); ok {
				det = ndOr(det, site.Position.Offset == i)
			}
			return true
		})
		okKnown = ndAnd(okKnown, ndImplies(ndAnd(w.visible(k, deps[k], i), ndOr(ref.fromSrc[i], ref.toSink[i])), det))
	}
	ndAssert("C06.A1.whole_program_verdict_on_visible_site_is_known_downstream", okKnown)
}

// Harness_C06_Export: the export step alone, at a deeper bound. One package observes <= NA
// constraints over SP sites with symbolic exported flags; the published fact must (i) carry every
// verdict on an exported site and (ii) connect every pair of exported undetermined sites that the
// package's full constraint graph connects (through any number of unexported sites).
func Harness_C06_Export() {
	SP := ndParam("SP", 4)
	NA := ndParam("NA", 3)
	KINDS := ndParam("KINDS", 3)
	c06PkgNames = map[*types.Package]string{}
	w := &c06World{SP: SP, expv: make([]bool, SP)}
	for i := range w.expv {
		w.expv[i] = ndBool("exported")
	}
	var exported *InferredMap
	pass := analysishelper.NewEnhancedPass(&analysis.Pass{
		Pkg:               c06NewPkg("m/a"),
		AllPackageFacts:   func() []analysis.PackageFact { return nil },
		ExportPackageFact: func(f analysis.Fact) { exported = f.(*InferredMap) },
	})
	rec := &c05Rec{}
	e := NewEngine(pass, rec)
	e.ObserveUpstream()
	n := 1 + ndChoice("n", NA)
	ops := make([]c05Op, n)
	for k := range ops {
		ops[k].kind = ndChoice("kind", KINDS)
		if KINDS == 1 {
			ops[k].kind = c05Edge // flows only
		}
		ops[k].a = ndInt("a", 0, SP-1)
		if ops[k].kind == c05Edge {
			ops[k].b = ndInt("b", 0, SP-1)
		}
		w.apply(e, k, ops[k])
	}
	e.inferredMap.Export(pass)
	ref := c05Reference(SP, ops)
	ndObserveBool("conflict", len(rec.over) > 0)
	ndObserveBool("published", exported != nil)
	if len(rec.over) > 0 {
		return
	}
	// read the fact back as the importer would
	var factOps []c05Op
	detNil := make([]bool, SP)
	detNonnil := make([]bool, SP)
	if exported != nil {
		fact := c06Codec(exported)
		for _, p := range fact.mapping.Pairs {
			o := p.Key.Position.Offset
			switch v := p.Value.(type) {
			case *DeterminedVal:
				for i := 0; i < SP; i++ {
					if v.Bool.Val() {
						detNil[i] = ndOr(detNil[i], o == i)
					} else {
						detNonnil[i] = ndOr(detNonnil[i], o == i)
					}
				}
			case *UndeterminedVal:
				for _, q := range v.Implicates.Pairs {
					factOps = append(factOps, c05Op{kind: c05Edge, a: o, b: q.Key.Position.Offset})
				}
				for _, q := range v.Implicants.Pairs {
					factOps = append(factOps, c05Op{kind: c05Edge, a: q.Key.Position.Offset, b: o})
				}
			}
		}
	}
	fref := c05Reference(SP, factOps)
	okVerdict, okFlow, okNoInvent := true, true, true
	for i := 0; i < SP; i++ {
		okVerdict = ndAnd(okVerdict, ndImplies(ndAnd(w.expv[i], ref.fromSrc[i]), detNil[i]))
		okVerdict = ndAnd(okVerdict, ndImplies(ndAnd(w.expv[i], ref.toSink[i]), detNonnil[i]))
		okNoInvent = ndAnd(okNoInvent, ndImplies(detNil[i], ref.fromSrc[i]))
		okNoInvent = ndAnd(okNoInvent, ndImplies(detNonnil[i], ref.toSink[i]))
		for j := 0; j < SP; j++ {
			if i == j {
				continue
			}
			und := ndAnd(ndAnd(ndNot(ref.fromSrc[i]), ndNot(ref.toSink[i])), ndAnd(ndNot(ref.fromSrc[j]), ndNot(ref.toSink[j])))
			okFlow = ndAnd(okFlow, ndImplies(ndAnd(ndAnd(w.expv[i], w.expv[j]), ndAnd(und, ref.reach[i][j])), fref.reach[i][j]))
			okNoInvent = ndAnd(okNoInvent, ndImplies(fref.reach[i][j], ref.reach[i][j]))
		}
	}
	ndAssert("C06.E.verdict_on_exported_site_is_in_fact", okVerdict)
	ndAssert("C06.E.flow_between_exported_sites_is_in_fact", okFlow)
	ndAssert("C06.E.fact_invents_nothing", okNoInvent)
}

// Harness_C06_Chain: a long flow through unexported sites, cheaply. The package observes the
// flows s0 -> s1 -> ... -> sL (a fixed chain shape) in a symbolically chosen ORDER; every site's
// exported flag is symbolic. Whatever the order and the flags, every pair of exported sites must
// stay connected in the published fact exactly as in the package's own graph.
func Harness_C06_Chain() {
	L := ndParam("L", 4) // number of flows; L+1 sites
	c06PkgNames = map[*types.Package]string{}
	w := &c06World{SP: L + 1, expv: make([]bool, L+1)}
	for i := range w.expv {
		w.expv[i] = ndBool("exported")
	}
	var exported *InferredMap
	pass := analysishelper.NewEnhancedPass(&analysis.Pass{
		Pkg:               c06NewPkg("m/a"),
		AllPackageFacts:   func() []analysis.PackageFact { return nil },
		ExportPackageFact: func(f analysis.Fact) { exported = f.(*InferredMap) },
	})
	e := NewEngine(pass, &c05Rec{})
	e.ObserveUpstream()
	// the L flows in any order
	rest := make([]int, L)
	for i := range rest {
		rest[i] = i
	}
	var ops []c05Op
	for len(rest) > 0 {
		j := 0
		if len(rest) > 1 {
			j = ndChoice("next_flow", len(rest))
		}
		k := rest[j]
		rest = append(rest[:j:j], rest[j+1:]...)
		op := c05Op{kind: c05Edge, a: k, b: k + 1}
		w.apply(e, len(ops), op)
		ops = append(ops, op)
	}
	e.inferredMap.Export(pass)
	var factOps []c05Op
	if exported != nil {
		fact := c06Codec(exported)
		for _, p := range fact.mapping.Pairs {
			o := p.Key.Position.Offset
			if v, ok := p.Value.(*UndeterminedVal); ok {
				for _, q := range v.Implicates.Pairs {
					factOps = append(factOps, c05Op{kind: c05Edge, a: o, b: q.Key.Position.Offset})
				}
				for _, q := range v.Implicants.Pairs {
					factOps = append(factOps, c05Op{kind: c05Edge, a: q.Key.Position.Offset, b: o})
				}
			}
		}
	}
	ndObserveBool("published", exported != nil)
	fref := c05Reference(L+1, factOps)
	okFlow, okNoInvent := true, true
	for i := 0; i <= L; i++ {
		for j := 0; j <= L; j++ {
			if i == j {
				continue
			}
			inGraph := i < j // the chain connects i to every later site
			if inGraph {
				okFlow = ndAnd(okFlow, ndImplies(ndAnd(w.expv[i], w.expv[j]), fref.reach[i][j]))
			} else {
				okNoInvent = ndAnd(okNoInvent, ndNot(fref.reach[i][j]))
			}
		}
	}
	ndAssert("C06.C.flow_between_exported_sites_survives_any_number_of_unexported_sites", okFlow)
	ndAssert("C06.C.fact_invents_no_flow", okNoInvent)
}
