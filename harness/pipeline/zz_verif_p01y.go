package accumulation

// P01Y: the C01 grammar spread over a CHAIN of three packages. m/q declares the package-level pointer and the
// callee; m/r imports m/q and re-exports the callee through a forwarding function Mid; m/p imports both and holds
// Entry, which calls r.Mid and uses q.G. Each package is analysed in turn by the real pipeline; a package sees the
// facts of ALL packages below it (as drivers hand them out: direct and transitive dependencies), through a fresh
// type-check of their sources. Obligations as in Harness_P01X, plus C03: the same program as ONE package (the
// dependencies' declarations first) gets equally many diagnostics.

//verif:use zz_verif_pipe.go

import (
	"strconv"
	"strings"
)

func Harness_P01Y() {
	n := ndParam("STMTS", 2)
	compound := ndParam("COMPOUND", 5)
	g := &p01Gen{x: true, y: true, g: true, live: true, calleeKind: -1, simple: ndParam("SIMPLE", 9)}
	g.emit("package p")
	g.emit("import (\"m/q\"; \"m/r\")")
	g.emit("var flag0, flag1, flag2, flag3 bool")
	g.emit("var _ = q.Calleeflag")
	g.emit("var _ = r.Mid")
	g.emit("func Entry() {")
	g.emit("\tvar x, y *int")
	for k := 0; k < n; k++ {
		g.stmt(compound)
	}
	g.emit("\t_, _ = x, y")
	g.emit("}")
	base := g.b.String()
	src := strings.NewReplacer("callee(", "r.Mid(", "x = g\n", "x = q.G\n", "g = x\n", "q.G = x\n", "*g\n", "*q.G\n").Replace(base)
	// m/q always has a callee here (Mid forwards to it); when Entry never calls, the identity shape is used
	kind := g.calleeKind
	if kind < 0 {
		kind = 0
	}
	depQ, calleeDeref := p01xDep(kind, false)
	depR := "package r\n\nimport \"m/q\"\n\nfunc Mid(a *int) *int { return q.Callee(a) }\n"
	ndObserveStr("source_q", depQ)
	ndObserveStr("source_p", src)

	rq, factsQ := pipeAnalysePkg("m/q", "q.go", depQ, nil)
	dq := pipeDep{path: "m/q", file: "q.go", src: depQ, facts: factsQ}
	rr, factsR := pipeAnalysePkg("m/r", "r.go", depR, []pipeDep{dq})
	dr := pipeDep{path: "m/r", file: "r.go", src: depR, facts: factsR}
	rp, _ := pipeAnalysePkg("m/p", "p.go", src, []pipeDep{dq, dr})

	internal := false
	total := 0
	at := map[string]bool{}
	for _, r := range []pipeResult{rq, rr, rp} {
		if r.panicked != "" || len(r.funcErrs) > 0 {
			internal = true
		}
		total += len(r.diags)
		for _, d := range r.diags {
			ndObserveStr("diag", d.Message)
			if strings.Contains(d.Message, "INTERNAL") {
				internal = true
			}
			pos := r.fset.Position(d.Pos)
			at[pos.Filename+":"+strconv.Itoa(pos.Line)] = true
		}
	}
	ndObserveInt("diagnostics", total)
	ndAssert("P01.A4.no_internal_failure", !internal)
	reported := total > 0
	ndAssert("P01.A1.a_reachable_nil_dereference_is_reported", ndImplies(g.panics, reported))
	nUnchecked := len(g.unchecked)
	if calleeDeref > 0 && g.calleeKind >= 0 {
		nUnchecked++
	}
	if nUnchecked == 0 && g.calleeKind != 3 {
		ndAssert("P01.A2.a_program_with_only_nil_checked_dereferences_is_not_reported", !reported)
	}
	if nUnchecked == 1 {
		if calleeDeref > 0 && g.calleeKind >= 0 {
			ndAssert("P01.A3.the_only_unchecked_dereference_is_reported_at_its_line", ndImplies(g.panics, at["q.go:"+strconv.Itoa(calleeDeref)]))
		} else if len(g.unchecked) == 1 {
			ndAssert("P01.A3.the_only_unchecked_dereference_is_reported_at_its_line", ndImplies(g.uncheckedP[0], at["p.go:"+strconv.Itoa(g.unchecked[0])]))
		}
	}

	// C03: one package with the same declarations in dependency order
	entry := base[strings.Index(base, "func Entry()"):]
	entry = strings.ReplaceAll(entry, "callee(", "mid(")
	calleeText := strings.NewReplacer("package q\n", "", "Calleeflag", "calleeflag", "var G ", "var g ", "func Callee(", "func callee(", "return G\n", "return g\n").Replace(depQ)
	whole := "package p\n\nvar flag0, flag1, flag2, flag3 bool\n" + calleeText + "\nfunc mid(a *int) *int { return callee(a) }\n\n" + entry
	rw := pipeAnalyse(whole)
	ndObserveInt("diagnostics_whole_program", len(rw.diags))
	ndAssert("C03.X.three_package_chain_reports_as_many_diagnostics_as_the_whole_program", len(rw.diags) == total)
}
