// Solver sessions for symx: one long-lived SMT-LIB2 process per worker.

package interp

import (
	"bufio"
	"fmt"
	"io"
	"os/exec"
	"strings"
	"sync/atomic"
	"time"
)

// SolverSpec names a solver command line that reads SMT-LIB2 from stdin.
type SolverSpec struct {
	Name string
	Argv []string
}

var (
	// -memory: a session that blows up ends itself instead of being picked by the kernel's OOM killer (which may pick
	// another worker's solver); the executor treats the death as an undecided query
	SolverZ3    = SolverSpec{"z3-4.8.12", []string{"z3", "-in", "-memory:3000"}}
	SolverZ3New = SolverSpec{"z3-5.1.0", []string{"z3-new", "-in", "-memory:3000"}}
	SolverCVC5  = SolverSpec{"cvc5-1.0", []string{"cvc5", "--incremental", "--lang=smt2", "--produce-models", "--strings-exp"}}
)

type solver struct {
	spec              SolverSpec
	cmd               *exec.Cmd
	in                io.WriteCloser
	out               *bufio.Reader
	log               *strings.Builder // per-path transcript (for counterexample dumps), may be nil
	queries           int64
	nanos             int64
	errs              int64
	timeout           int // ms per query
	nameSeq           int64
	scope             []string // assertions made inside the innermost open (push 1) of a check
	depth             int      // number of open (push 1) scopes
	stale             bool     // the session timed out or printed an error: restart it before the next use
	hungJustRestarted bool     // the session was just restarted by the watchdog path (no second restart needed)
	hung              bool     // the watchdog killed the process because it ignored its own time limit
}

func newSolver(spec SolverSpec, timeoutMs int) (*solver, error) {
	cmd := exec.Command(spec.Argv[0], spec.Argv[1:]...)
	in, err := cmd.StdinPipe()
	if err != nil {
		return nil, err
	}
	out, err := cmd.StdoutPipe()
	if err != nil {
		return nil, err
	}
	cmd.Stderr = cmd.Stdout
	if err := cmd.Start(); err != nil {
		return nil, err
	}
	s := &solver{spec: spec, cmd: cmd, in: in, out: bufio.NewReaderSize(out, 1<<16), timeout: timeoutMs}
	s.preamble()
	return s, nil
}

// restart replaces a dead (or killed) solver process by a fresh one inside the same session object;
// the caller re-sends whatever context it needs.
func (s *solver) restart() error {
	if s.cmd != nil && s.cmd.Process != nil {
		s.cmd.Process.Kill()
		s.in.Close()
		go s.cmd.Wait()
	}
	cmd := exec.Command(s.spec.Argv[0], s.spec.Argv[1:]...)
	in, err := cmd.StdinPipe()
	if err != nil {
		return err
	}
	out, err := cmd.StdoutPipe()
	if err != nil {
		return err
	}
	cmd.Stderr = cmd.Stdout
	if err := cmd.Start(); err != nil {
		return err
	}
	s.cmd, s.in, s.out = cmd, in, bufio.NewReaderSize(out, 1<<16)
	s.hung = false
	s.stale = false
	s.depth = 0
	s.scope = s.scope[:0]
	savedLog := s.log
	s.log = nil
	s.preamble()
	s.log = savedLog
	return nil
}

func (s *solver) preamble() {
	spec, timeoutMs := s.spec, s.timeout
	s.send("(set-option :print-success false)")
	if strings.HasPrefix(spec.Name, "z3") {
		s.send(fmt.Sprintf("(set-option :timeout %d)", timeoutMs))
	} else {
		s.send(fmt.Sprintf("(set-option :tlimit-per %d)", timeoutMs))
	}
	s.send("(set-logic ALL)")
}

func (s *solver) close() {
	if s == nil || s.cmd == nil {
		return
	}
	io.WriteString(s.in, "(exit)\n")
	s.in.Close()
	done := make(chan struct{})
	go func() { s.cmd.Wait(); close(done) }()
	select {
	case <-done:
	case <-time.After(2 * time.Second):
		s.cmd.Process.Kill()
	}
}

func (s *solver) send(line string) {
	switch {
	case line == "(push 1)":
		s.scope = s.scope[:0]
		s.depth++
	case line == "(pop 1)":
		s.scope = s.scope[:0]
		s.depth--
	case strings.HasPrefix(line, "(assert "):
		s.scope = append(s.scope, line)
	}
	if s.log != nil {
		s.log.WriteString(line)
		s.log.WriteByte('\n')
	}
	if _, err := io.WriteString(s.in, line+"\n"); err != nil {
		panic(engineError{"solver write failed: " + err.Error()})
	}
}

// readSexp reads one complete answer: either an atom line or a balanced s-expression.
func (s *solver) readSexp() string {
	var b strings.Builder
	depth := 0
	inStr := false
	started := false
	for {
		c, err := s.out.ReadByte()
		if err != nil {
			panic(engineError{"solver died: " + err.Error() + " after " + b.String()})
		}
		if !started {
			if c == ' ' || c == '\n' || c == '\r' || c == '\t' {
				continue
			}
			started = true
		}
		b.WriteByte(c)
		if inStr {
			if c == '"' {
				inStr = false
			}
			continue
		}
		switch c {
		case '"':
			inStr = true
		case '(':
			depth++
		case ')':
			depth--
			if depth == 0 {
				return b.String()
			}
		case '\n':
			if depth == 0 {
				return strings.TrimSpace(b.String())
			}
		}
	}
}

// checkSat returns "sat", "unsat" or "unknown" (any error output is "unknown").
func (s *solver) checkSat() string {
	t0 := time.Now()
	s.send("(check-sat)")
	// watchdog: a solver that ignores its own per-query limit (z3's sequence solver can) is killed; the read
	// then fails, the caller restarts the session and treats the query as unknown
	proc := s.cmd.Process
	wd := time.AfterFunc(time.Duration(3*s.timeout+3000)*time.Millisecond, func() { s.hung = true; proc.Kill() })
	r := s.readSexp()
	wd.Stop()
	atomic.AddInt64(&s.queries, 1)
	atomic.AddInt64(&s.nanos, int64(time.Since(t0)))
	switch r {
	case "sat", "unsat":
		return r
	case "unknown", "timeout":
		s.stale = true
		return "unknown"
	}
	// an (error ...) answer (e.g. the memory limit was hit): the answer stream may be out of step with the commands and an
	// assertion may have been dropped - the session must not be used again
	s.stale = true
	s.errs++
	if s.log != nil {
		s.log.WriteString("; solver answered: " + r + "\n")
	}
	return "unknown"
}

// getValues asks for the model values of the given constant names.
func (s *solver) getValues(names []string) (map[string]string, error) {
	res := map[string]string{}
	if len(names) == 0 {
		return res, nil
	}
	s.send("(get-value (" + strings.Join(names, " ") + "))")
	r := s.readSexp()
	if !strings.HasPrefix(r, "((") {
		return nil, fmt.Errorf("get-value: %s", r)
	}
	toks := parseSexp(r)
	lst, ok := toks.([]any)
	if !ok {
		return nil, fmt.Errorf("get-value parse: %s", r)
	}
	for _, p := range lst {
		pair, ok := p.([]any)
		if !ok || len(pair) != 2 {
			return nil, fmt.Errorf("get-value pair: %s", r)
		}
		name, _ := pair[0].(string)
		res[name] = sexpString(pair[1])
	}
	return res, nil
}

// parseSexp parses an s-expression into nested []any of strings.
func parseSexp(s string) any {
	pos := 0
	var parse func() any
	skip := func() {
		for pos < len(s) && (s[pos] == ' ' || s[pos] == '\n' || s[pos] == '\t' || s[pos] == '\r') {
			pos++
		}
	}
	parse = func() any {
		skip()
		if pos >= len(s) {
			return nil
		}
		if s[pos] == '(' {
			pos++
			var lst []any
			for {
				skip()
				if pos >= len(s) {
					return lst
				}
				if s[pos] == ')' {
					pos++
					return lst
				}
				lst = append(lst, parse())
			}
		}
		if s[pos] == '"' {
			st := pos
			pos++
			for pos < len(s) {
				if s[pos] == '"' {
					if pos+1 < len(s) && s[pos+1] == '"' {
						pos += 2
						continue
					}
					pos++
					break
				}
				pos++
			}
			return s[st:pos]
		}
		st := pos
		for pos < len(s) && !strings.ContainsRune(" \n\t\r()", rune(s[pos])) {
			pos++
		}
		return s[st:pos]
	}
	return parse()
}

func sexpString(x any) string {
	switch x := x.(type) {
	case string:
		return x
	case []any:
		parts := make([]string, len(x))
		for i, e := range x {
			parts[i] = sexpString(e)
		}
		return "(" + strings.Join(parts, " ") + ")"
	}
	return ""
}

// decodeSMTString turns an SMT-LIB string literal (with quotes) into a Go string.
func decodeSMTString(lit string) string {
	if len(lit) >= 2 && lit[0] == '"' && lit[len(lit)-1] == '"' {
		lit = lit[1 : len(lit)-1]
	}
	lit = strings.ReplaceAll(lit, `""`, `"`)
	var b strings.Builder
	for i := 0; i < len(lit); i++ {
		if lit[i] == '\\' && i+2 < len(lit) && lit[i+1] == 'u' {
			// \u{h..} or \uhhhh
			if lit[i+2] == '{' {
				j := strings.IndexByte(lit[i:], '}')
				if j > 0 {
					var v int
					fmt.Sscanf(lit[i+3:i+j], "%x", &v)
					b.WriteRune(rune(v))
					i += j
					continue
				}
			} else if i+5 < len(lit) {
				var v int
				if _, err := fmt.Sscanf(lit[i+2:i+6], "%x", &v); err == nil {
					b.WriteRune(rune(v))
					i += 5
					continue
				}
			}
		}
		if lit[i] == '\\' && i+3 < len(lit) && lit[i+1] == 'x' {
			var v int
			if _, err := fmt.Sscanf(lit[i+2:i+4], "%x", &v); err == nil {
				b.WriteByte(byte(v))
				i += 3
				continue
			}
		}
		b.WriteByte(lit[i])
	}
	return b.String()
}

// decodeBV parses "#x.." / "#b.." / "(_ bvN w)" into a uint64.
func decodeBV(lit string) (uint64, bool) {
	var u uint64
	switch {
	case strings.HasPrefix(lit, "#x"):
		if _, err := fmt.Sscanf(lit[2:], "%x", &u); err != nil {
			return 0, false
		}
		return u, true
	case strings.HasPrefix(lit, "#b"):
		for _, c := range lit[2:] {
			u = u<<1 | uint64(c-'0')
		}
		return u, true
	case strings.HasPrefix(lit, "(_ bv"):
		if _, err := fmt.Sscanf(lit, "(_ bv%d", &u); err != nil {
			return 0, false
		}
		return u, true
	}
	return 0, false
}
