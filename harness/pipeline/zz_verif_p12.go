package accumulation

// C12 at source level: an excluded package gets no diagnostics and publishes no facts. The two-package programs
// of Harness_P01X are analysed by the real pipeline with -exclude-pkgs set to the dependency (m/q) or to the
// importer (m/p):
//   C12.X1  the excluded package's own analysis yields no diagnostic and exports no fact
//   C12.X2  excluding the importer does not change what the dependency's analysis reports or exports (count)
//   C12.X3  nothing internal fails

//verif:use zz_verif_pipe.go

import "strings"

func Harness_P12() {
	n := ndParam("STMTS", 2)
	compound := ndParam("COMPOUND", 5)
	g := &p01Gen{x: true, y: true, g: true, live: true, calleeKind: -1, simple: ndParam("SIMPLE", 9)}
	g.emit("package p")
	g.emit("import \"m/q\"")
	g.emit("var flag0, flag1, flag2, flag3 bool")
	g.emit("var _ = q.Calleeflag")
	g.emit("")
	g.emit("func Entry() {")
	g.emit("\tvar x, y *int")
	for k := 0; k < n; k++ {
		g.stmt(compound)
	}
	g.emit("\t_, _ = x, y")
	g.emit("}")
	src := strings.NewReplacer("callee(", "q.Callee(", "x = g\n", "x = q.G\n", "g = x\n", "q.G = x\n", "*g\n", "*q.G\n").Replace(g.b.String())
	dep, _ := p01xDep(g.calleeKind, false)
	ndObserveStr("source_q", dep)
	ndObserveStr("source_p", src)

	// baseline: nothing excluded
	pipeExclude = nil
	bq, bfacts := pipeAnalysePkg("m/q", "q.go", dep, nil)

	excludeDep := ndChoice("excluded", 2) == 0
	if excludeDep {
		pipeExclude = []string{"m/q"}
	} else {
		pipeExclude = []string{"m/p"}
	}
	rq, facts := pipeAnalysePkg("m/q", "q.go", dep, nil)
	rp, pfacts := pipeAnalysePkg("m/p", "p.go", src, []pipeDep{{path: "m/q", file: "q.go", src: dep, facts: facts}})
	pipeExclude = nil
	ndObserveInt("diagnostics_q", len(rq.diags))
	ndObserveInt("facts_q", len(facts))
	ndObserveInt("diagnostics_p", len(rp.diags))
	ndObserveInt("facts_p", len(pfacts))
	ndAssert("C12.X3.no_internal_failure", rq.panicked == "" && rp.panicked == "" && len(rq.funcErrs) == 0 && len(rp.funcErrs) == 0)
	if excludeDep {
		ndAssert("C12.X1.excluded_package_gets_no_diagnostic", len(rq.diags) == 0)
		ndAssert("C12.X1.excluded_package_exports_no_fact", len(facts) == 0)
	} else {
		ndAssert("C12.X1.excluded_package_gets_no_diagnostic", len(rp.diags) == 0)
		ndAssert("C12.X1.excluded_package_exports_no_fact", len(pfacts) == 0)
		ndAssert("C12.X2.excluding_the_importer_leaves_the_dependency_alone", len(rq.diags) == len(bq.diags) && len(facts) == len(bfacts))
	}
}
