package annotation

import "go/types"

// VerifObservedMap lets harnesses of other packages build an ObservedMap (its fields are
// unexported): explicit annotations on package-level variables and on struct fields.
func VerifObservedMap(globals, fields map[*types.Var]Val) *ObservedMap {
	return &ObservedMap{
		fieldAnnMap:      fields,
		globalVarsAnnMap: globals,
	}
}
