package inference

// C05 (layer 2, trigger level) and C20-K2 (call-site gating): real annotation.FullTrigger values
// pushed through Engine.ObservePackage -> buildPkgInferenceMap -> buildFromSingleFullTrigger, with
// controlled triggers (Controller = call-site parameter site) and annotations replayed first, as
// accumulation.run does.
//
// Sites are (kind, index): kind 0 = package-level variable key, kind 1 = call-site parameter key;
// index symbolic in [0,S). A controlled trigger is a constraint that exists only if its controller
// site is nilable; the reference computes the least fixpoint of "nilable" under that rule.

import (
	"go/ast"
	"go/token"
	"go/types"
	"strconv"

	"go.uber.org/nilaway/annotation"
	"go.uber.org/nilaway/config"
	"go.uber.org/nilaway/util/analysishelper"
	"golang.org/x/tools/go/analysis"
)

//verif:stub go.uber.org/nilaway/inference.c05NewPass = c05NewPassSym
//verif:stub go.uber.org/nilaway/inference.c05NewFunc = c05NewFuncSym
//verif:stub (*go.uber.org/nilaway/inference.primitivizer).site = c05SiteStub
//verif:stub (*go.uber.org/nilaway/inference.primitivizer).fullTrigger = c05FullTriggerStub

var c05Pkg *types.Package

// c05NewPass: natively a real pass (file set with one big file, empty types.Info) so that the real
// primitivizer.site / fullTrigger run; under symx a bare pass, with site/fullTrigger replaced by
// the stubs below (contract: site identity = (key kind, object position, isDeep)).
func c05NewPass() *analysishelper.EnhancedPass {
	fset := token.NewFileSet()
	fset.AddFile("f.go", 1, 1<<20)
	c05Pkg = types.NewPackage("p", "p")
	return analysishelper.NewEnhancedPass(&analysis.Pass{Fset: fset, Pkg: c05Pkg,
		ResultOf:        map[*analysis.Analyzer]interface{}{config.Analyzer: &config.Config{}},
		AllPackageFacts: func() []analysis.PackageFact { return nil },
		TypesInfo:       &types.Info{Types: map[ast.Expr]types.TypeAndValue{}, Defs: map[*ast.Ident]types.Object{}, Uses: map[*ast.Ident]types.Object{}}})
}

func c05NewPassSym() *analysishelper.EnhancedPass {
	c05Pkg = nil
	return analysishelper.NewEnhancedPass(&analysis.Pass{AllPackageFacts: func() []analysis.PackageFact { return nil }})
}

func c05NewFunc(pos token.Pos) *types.Func {
	sig := types.NewSignatureType(nil, nil, nil, types.NewTuple(types.NewVar(token.NoPos, c05Pkg, "x", types.Typ[types.Int])),
		types.NewTuple(types.NewVar(token.NoPos, c05Pkg, "", types.Typ[types.Int]), types.NewVar(token.NoPos, c05Pkg, "", types.Typ[types.Int])), false)
	return types.NewFunc(pos, c05Pkg, "f", sig)
}

func c05NewFuncSym(pos token.Pos) *types.Func { return types.NewFunc(pos, nil, "f", nil) }

func c05SiteStub(p *primitivizer, key annotation.Key, isDeep bool) primitiveSite {
	repr := "other"
	switch k := key.(type) {
	case *annotation.GlobalVarAnnotationKey:
		repr = "Global Variable v"
	case *annotation.CallSiteParamAnnotationKey:
		repr = "callsite"
	case *annotation.RetAnnotationKey:
		repr = "Result " + strconv.Itoa(k.RetNum)
	}
	pos := int(key.Object().Pos())
	return primitiveSite{Position: token.Position{Filename: "f.go", Offset: pos - 1, Line: 1, Column: pos}, PkgPath: "p", Repr: repr, IsDeep: isDeep}
}

func c05FullTriggerStub(p *primitivizer, t annotation.FullTrigger) primitiveFullTrigger {
	pos := int(t.Consumer.Expr.Pos())
	return primitiveFullTrigger{Position: token.Position{Filename: "f.go", Offset: pos - 1, Line: 1, Column: pos}}
}

const (
	l2Source    = iota // Always -> site a
	l2Sink             // site a -> Always
	l2Edge             // a -> b
	l2Single           // Always -> Always
	l2CtlSrc           // [controller c] Always -> b
	l2CtlEdge          // [controller c] a -> b
	l2AnnNil           // annotation: a nilable   (replayed before ObservePackage)
	l2AnnNonnil        // annotation: a nonnil
	l2Kinds
)

type l2Ref struct {
	kind, idx int // kind concrete (0 global var, 1 call-site param), idx symbolic
}

type l2Op struct {
	kind    int
	a, b, c l2Ref
}

func l2ReadRef(S int, name string, forceCall bool) l2Ref {
	k := 1
	if !forceCall {
		k = ndChoice(name+"_kind", 2)
	}
	return l2Ref{kind: k, idx: ndInt(name, 0, S-1)}
}

func (r l2Ref) node(S int) int { return r.kind*S + r.idx }

func l2Key(r l2Ref) annotation.Key {
	pos := token.Pos(1 + r.idx + 100*r.kind) // disjoint position ranges per kind (S <= 100)
	if r.kind == 0 {
		return &annotation.GlobalVarAnnotationKey{VarDecl: types.NewVar(pos, c05Pkg, "v", nil)}
	}
	return &annotation.CallSiteParamAnnotationKey{FuncDecl: c05NewFunc(pos), ParamNum: 0}
}

func l2Producer(r l2Ref) *annotation.ProduceTrigger {
	return &annotation.ProduceTrigger{Annotation: &annotation.TriggerIfNilable{Ann: l2Key(r)}, Expr: &ast.Ident{Name: "p"}}
}

func l2Always() *annotation.ProduceTrigger {
	return &annotation.ProduceTrigger{Annotation: &annotation.ProduceTriggerTautology{}, Expr: &ast.Ident{Name: "nil"}}
}

func l2Consumer(r l2Ref, k int) *annotation.ConsumeTrigger {
	var ann annotation.ConsumingAnnotationTrigger
	if r.kind == 0 {
		ann = &annotation.GlobalVarAssign{TriggerIfNonNil: &annotation.TriggerIfNonNil{Ann: l2Key(r)}}
	} else {
		ann = &annotation.ArgPass{TriggerIfNonNil: &annotation.TriggerIfNonNil{Ann: l2Key(r)}}
	}
	return &annotation.ConsumeTrigger{Annotation: ann, Expr: &ast.Ident{Name: "c", NamePos: token.Pos(1001 + k)}}
}

func l2Must(k int) *annotation.ConsumeTrigger {
	return &annotation.ConsumeTrigger{Annotation: &annotation.PtrLoad{ConsumeTriggerTautology: &annotation.ConsumeTriggerTautology{}},
		Expr: &ast.Ident{Name: "d", NamePos: token.Pos(1001 + k)}}
}

func l2Trigger(k int, op l2Op) annotation.FullTrigger {
	var t annotation.FullTrigger
	switch op.kind {
	case l2Source:
		t = annotation.FullTrigger{Producer: l2Always(), Consumer: l2Consumer(op.a, k)}
	case l2Sink:
		t = annotation.FullTrigger{Producer: l2Producer(op.a), Consumer: l2Must(k)}
	case l2Edge:
		t = annotation.FullTrigger{Producer: l2Producer(op.a), Consumer: l2Consumer(op.b, k)}
	case l2Single:
		t = annotation.FullTrigger{Producer: l2Always(), Consumer: l2Must(k)}
	case l2CtlSrc:
		t = annotation.FullTrigger{Producer: l2Always(), Consumer: l2Consumer(op.b, k), Controller: l2Key(op.c).(*annotation.CallSiteParamAnnotationKey)}
	case l2CtlEdge:
		t = annotation.FullTrigger{Producer: l2Producer(op.a), Consumer: l2Consumer(op.b, k), Controller: l2Key(op.c).(*annotation.CallSiteParamAnnotationKey)}
	}
	return t
}

// l2Reference: least fixpoint of nilable under conditional constraints, then non-nil backwards
// over the enabled constraints, over 2S nodes.
func l2Reference(S int, ops []l2Op) (nilable, nonnil []bool, conflict bool) {
	M := 2 * S
	nilable = make([]bool, M)
	nonnil = make([]bool, M)
	for i := 0; i < M; i++ {
		for _, op := range ops {
			switch op.kind {
			case l2Source, l2AnnNil:
				nilable[i] = ndOr(nilable[i], op.a.node(S) == i)
			case l2Sink, l2AnnNonnil:
				nonnil[i] = ndOr(nonnil[i], op.a.node(S) == i)
			}
		}
	}
	sel := func(r l2Ref, vec []bool) bool {
		out := false
		for i := 0; i < M; i++ {
			out = ndOr(out, ndAnd(r.node(S) == i, vec[i]))
		}
		return out
	}
	enabled := func(op l2Op) bool {
		switch op.kind {
		case l2Edge:
			return true
		case l2CtlSrc, l2CtlEdge:
			return sel(op.c, nilable)
		}
		return false
	}
	for round := 0; round < len(ops); round++ {
		next := make([]bool, M)
		copy(next, nilable)
		for _, op := range ops {
			switch op.kind {
			case l2Edge, l2CtlEdge:
				fire := ndAnd(enabled(op), sel(op.a, nilable))
				for j := 0; j < M; j++ {
					next[j] = ndOr(next[j], ndAnd(fire, op.b.node(S) == j))
				}
			case l2CtlSrc:
				fire := enabled(op)
				for j := 0; j < M; j++ {
					next[j] = ndOr(next[j], ndAnd(fire, op.b.node(S) == j))
				}
			}
		}
		nilable = next
	}
	for round := 0; round < len(ops); round++ {
		next := make([]bool, M)
		copy(next, nonnil)
		for _, op := range ops {
			if op.kind == l2Edge || op.kind == l2CtlEdge {
				fire := ndAnd(enabled(op), sel(op.b, nonnil))
				for j := 0; j < M; j++ {
					next[j] = ndOr(next[j], ndAnd(fire, op.a.node(S) == j))
				}
			}
		}
		nonnil = next
	}
	for i := 0; i < M; i++ {
		conflict = ndOr(conflict, ndAnd(nilable[i], nonnil[i]))
	}
	for _, op := range ops {
		if op.kind == l2Single {
			conflict = true
		}
	}
	return
}

func Harness_C05_L2() {
	S := ndParam("S", 2)
	N := ndParam("N", 3)
	n := 1 + ndChoice("n", N)
	ops := make([]l2Op, n)
	hasCtl, hasAnn := false, false
	for k := range ops {
		op := &ops[k]
		op.kind = ndChoice("kind", l2Kinds)
		switch op.kind {
		case l2Source, l2Sink, l2AnnNil, l2AnnNonnil:
			op.a = l2ReadRef(S, "a", false)
		case l2Edge:
			op.a = l2ReadRef(S, "a", false)
			op.b = l2ReadRef(S, "b", false)
		case l2CtlSrc:
			// precondition (duplicateFullTrigger): the consumer of a controlled trigger is a
			// call-site RETURN site, never a call-site parameter site; kind 0 stands for it.
			op.c = l2ReadRef(S, "c", true)
			op.b = l2Ref{kind: 0, idx: ndInt("b", 0, S-1)}
		case l2CtlEdge:
			op.c = l2ReadRef(S, "c", true)
			op.a = l2ReadRef(S, "a", false)
			op.b = l2Ref{kind: 0, idx: ndInt("b", 0, S-1)}
		}
		if op.kind == l2CtlSrc || op.kind == l2CtlEdge {
			hasCtl = true
		}
		if op.kind == l2AnnNil {
			hasAnn = true
		}
	}
	pass := c05NewPass()
	rec := &c05Rec{}
	e := NewEngine(pass, rec)
	// annotations first (accumulation.run: ObserveAnnotations precedes ObservePackage)
	var triggers []annotation.FullTrigger
	for k, op := range ops {
		switch op.kind {
		case l2AnnNil:
			site := e.primitive.site(l2Key(op.a), false)
			e.observeSiteExplanation(site, TrueBecauseAnnotation{AnnotationPos: site.Position})
		case l2AnnNonnil:
			site := e.primitive.site(l2Key(op.a), false)
			e.observeSiteExplanation(site, FalseBecauseAnnotation{AnnotationPos: site.Position})
		default:
			triggers = append(triggers, l2Trigger(k, op))
		}
	}
	e.ObservePackage(triggers)

	nilable, nonnil, conflict := l2Reference(S, ops)
	got := len(rec.over)+rec.single > 0
	ndObserveBool("conflict", got)
	ndObserveInt("n_over", len(rec.over))
	ndObserveInt("n_single", rec.single)
	id := "C05.L2.A1.conflict_iff_source_reaches_sink"
	if hasCtl && hasAnn {
		// class label: a controlled trigger coexists with a nilable annotation, i.e. its controller
		// may already be determined when the trigger is registered
		id = "C05.L2.A1.conflict_iff_source_reaches_sink[controller_may_be_predetermined]"
	}
	ndAssert(id, ndIff(got, conflict))
	if got {
		return
	}
	id3 := "C05.L2.A3.verdicts_match_reachability"
	if hasCtl && hasAnn {
		id3 += "[controller_may_be_predetermined]"
	}
	e.inferredMap.OrderedRange(func(site primitiveSite, val InferredVal) bool {
		kind := 0
		if site.Repr == "callsite" || (len(site.Repr) > 5 && site.Repr[:5] == "Param") {
			kind = 1
		}
		r := l2Ref{kind: kind, idx: site.Position.Offset - 100*kind}
		selv := func(vec []bool) bool {
			out := false
			for i := range vec {
				out = ndOr(out, ndAnd(r.node(S) == i, vec[i]))
			}
			return out
		}
		switch v := val.(type) {
		case *DeterminedVal:
			if v.Bool.Val() {
				ndAssert(id3, ndAnd(selv(nilable), ndNot(selv(nonnil))))
			} else {
				ndAssert(id3, ndAnd(selv(nonnil), ndNot(selv(nilable))))
			}
		case *UndeterminedVal:
			ndAssert(id3, ndAnd(ndNot(selv(nilable)), ndNot(selv(nonnil))))
		}
		return true
	})
}
