package nilaway

// C13, second sentence: pretty-printing only inserts colour escape sequences and an `error: ` prefix -
// stripping them gives back the plain message. The REAL PrettyPrintErrorMessage (three regular-expression
// rewrites executed from SSA by symx together with the real regexp engine) runs on diagnostic messages
// assembled from NilAway's own message shapes: a flow header, 1-2 flow steps whose texts quote code
// fragments in backticks, optional nilability words, and the optional "(Same nil source could also cause
// potential nil panic(s) at N other place(s): "file:line:col", ...)" suffix of grouped diagnostics. The
// code fragments come from an alphabet that contains the characters a formatter or a regular-expression
// template could trip over (%, $, \, quotes inside backticks, parentheses).
// This kernel has no symbolic scalars (regular-expression matching over symbolic strings is out of solver
// reach): it is an enumeration of message shapes executed by symx and natively.

//verif:init unicode
//verif:init regexp/syntax
//verif:init regexp
//verif:init go.uber.org/nilaway/config
//verif:zero go.uber.org/nilaway/accumulation.Analyzer
//verif:init go.uber.org/nilaway

import "strings"

var ndHarnesses = map[string]func(){"Harness_C13_Pretty": Harness_C13_Pretty}

// c13Strip removes ANSI colour sequences (ESC [ digits m) and the leading "error: ".
func c13Strip(s string) string {
	var b strings.Builder
	for i := 0; i < len(s); {
		if s[i] == 0x1b && i+1 < len(s) && s[i+1] == '[' {
			j := i + 2
			for j < len(s) && s[j] >= '0' && s[j] <= '9' {
				j++
			}
			if j < len(s) && s[j] == 'm' {
				i = j + 1
				continue
			}
		}
		b.WriteByte(s[i])
		i++
	}
	return strings.TrimPrefix(b.String(), "error: ")
}

func c13Code(tag string) string {
	codes := []string{"x", "fmt.Sprintf(\"%d\", x)", "m[\"k\"]", "100%", "f($1)", "a % b", "s[i:j]", "p.q(r)", "c\\d", "%!s(x)", "v.(T)"}
	return codes[ndChoice(tag, ndParam("CODES", len(codes)))]
}

func Harness_C13_Pretty() {
	msg := "Potential nil panic detected. Observed nil flow from source to dereference point: \n"
	switch ndChoice("step1", 4) {
	case 0:
		msg += "\t- p.go:5:10: unassigned variable `" + c13Code("code1") + "` dereferenced\n"
	case 1:
		msg += "\t- a/b.go:22:9: literal `nil` returned from `" + c13Code("code1") + "` in position 0\n"
	case 2:
		msg += "\t- p.go:7:2: result 0 of `" + c13Code("code1") + "` lacking guarding; dereferenced via the assignment(s):\n\t\t- `" + c13Code("code1b") + "` to `v` at p.go:6:2\n"
	default:
		msg += "\t- p.go:9:1: function parameter `" + c13Code("code1") + "` (found nilable) passed as arg `y` to `g()`\n\tmust be nonnil\n"
	}
	if ndChoice("step2", 2) == 1 {
		msg += "\t- q.go:3:4: read from field `" + c13Code("code2") + "` sliced into\n"
	}
	switch ndChoice("group", 3) {
	case 1:
		msg += "\n(Same nil source could also cause potential nil panic(s) at 1 other place(s): \"p.go:34:10\".)\n"
	case 2:
		msg += "\n(Same nil source could also cause potential nil panic(s) at 2 other place(s): \"p.go:34:10\", and \"a/b.go:1:2\".)\n"
	}
	out := PrettyPrintErrorMessage(msg)
	ndObserveStr("message", msg)
	ndObserveStr("pretty", out)
	ndAssert("C13.P.pretty_output_starts_with_the_coloured_error_prefix", strings.HasPrefix(out, "\x1b[31merror: \x1b[0m"))
	ndAssert("C13.P.stripping_colours_and_prefix_gives_back_the_plain_message", c13Strip(out) == msg)
}
