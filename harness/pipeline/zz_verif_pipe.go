package accumulation

// Source-level pipeline: a generated package is parsed and type-checked by the REAL go/parser and
// go/types, its CFGs are built by the REAL go/cfg builder, and then the REAL NilAway stages run on it,
// all executed from SSA by symx with nothing stubbed: annotation reading (annotation.run), global
// variable triggers (global.run), per-function backpropagation (assertiontree.BackpropAcrossFunc, with
// the preprocessing and rich-check-effect passes it drives), and accumulation.run (diagnostic engine,
// inference engine: ObserveUpstream / ObserveAnnotations / ObservePackage, diagnostics).
//
// What is NOT the real code: the analysis driver and the function analyzer's goroutine fan-out
// (function.run) - the harness calls BackpropAcrossFunc function by function in declaration order -
// ctrlflow's no-return bookkeeping (cfg.New is told every call may return), and the anonymous-function,
// contract and struct-field analyzers, whose results are empty (the grammars have no literals, contracts
// worth inferring or struct fields). The affiliation analyzer (interfaces) runs when pipeAffiliation is set.

//verif:init go/types
//verif:init go/token
//verif:init go/ast
//verif:init go/scanner
//verif:init go/parser
//verif:init go/printer
//verif:init golang.org/x/tools/internal/typeparams
//verif:init golang.org/x/exp/typeparams
//verif:zero golang.org/x/tools/go/types/typeutil.theSeed
//verif:init golang.org/x/tools/go/ssa
//verif:init unicode
//verif:init regexp/syntax
//verif:init regexp
//verif:init go.uber.org/nilaway/config
//verif:init go.uber.org/nilaway/util/tokenhelper
//verif:init go.uber.org/nilaway/util/typeshelper
//verif:init go.uber.org/nilaway/util/analysishelper
//verif:init go.uber.org/nilaway/annotation
//verif:init go.uber.org/nilaway/hook
//verif:init go.uber.org/nilaway/assertion/function/preprocess
//verif:init go.uber.org/nilaway/assertion/function/producer
//verif:init go.uber.org/nilaway/assertion/function/assertiontree
//verif:init go.uber.org/nilaway/assertion/global
//verif:zero golang.org/x/tools/go/analysis/passes/buildssa.Analyzer
//verif:init go.uber.org/nilaway/assertion/function/functioncontracts
//verif:init go.uber.org/nilaway/assertion/affiliation
//verif:init go.uber.org/nilaway/inference
//verif:init go.uber.org/nilaway/diagnostic

import (
	"context"
	"go/ast"
	"go/parser"
	"go/token"
	"go/types"
	"strconv"

	"go.uber.org/nilaway/annotation"
	"go.uber.org/nilaway/assertion"
	"go.uber.org/nilaway/assertion/affiliation"
	"go.uber.org/nilaway/assertion/anonymousfunc"
	"go.uber.org/nilaway/assertion/function"
	"go.uber.org/nilaway/assertion/function/assertiontree"
	"go.uber.org/nilaway/assertion/function/functioncontracts"
	"go.uber.org/nilaway/assertion/global"
	"go.uber.org/nilaway/config"
	"go.uber.org/nilaway/diagnostic"
	"go.uber.org/nilaway/util/analysishelper"
	"golang.org/x/tools/go/analysis"
	"golang.org/x/tools/go/cfg"
	"golang.org/x/tools/go/ssa"
)

var pipeDebug bool

// pipeGroupMessages is the -group-error-messages flag the pipeline runs with (default as in NilAway: on).
var pipeGroupMessages = true

// pipeAffiliation also runs the affiliation analyzer (interface implementations); off for the grammars without interfaces.
var pipeAffiliation bool

// pipeExclude is the -exclude-pkgs list the pipeline runs with (default: none; everything is included).
var pipeExclude []string

// pipeContracts also collects function contracts (real inferContracts on the real SSA) and duplicates triggers at contracted calls.
var pipeContracts bool

type pipeResult struct {
	diags     []analysis.Diagnostic
	fset      *token.FileSet
	funcErrs  []string // per-function backpropagation errors ("internal error" material)
	panicked  string
	triggers  int
	trace     []string
	contracts int
}

func (r pipeResult) lines() map[int]bool {
	m := map[int]bool{}
	for _, d := range r.diags {
		m[r.fset.Position(d.Pos).Line] = true
	}
	return m
}

// pipeDep is an already analysed dependency: its source (re-checked into the importer's file set, which gives
// the importer fresh type objects as export data would) and the facts it exported.
type pipeDep struct {
	path, file, src string
	facts           []analysis.Fact
}

type pipeImporter map[string]*types.Package

func (m pipeImporter) Import(path string) (*types.Package, error) { return m[path], nil }

// pipeAnalyse runs the pipeline on one single-file package without imports.
func pipeAnalyse(src string) pipeResult {
	res, _ := pipeAnalysePkg("m/p", "p.go", src, nil)
	return res
}

// pipeAnalysePkg runs the pipeline on one single-file package that may import the given dependencies (listed in
// dependency order; a dependency may import earlier ones); it also returns the facts the package exported. Facts are handed over by
// reference, not through the gob codec (C06 decides the codec).
func pipeAnalysePkg(path, fileName, src string, deps []pipeDep) (res pipeResult, facts []analysis.Fact) {
	// the assertion aggregator's analyzer object is only a map key here (its initialiser refers to analyzers that are not run)
	assertion.Analyzer = &analysis.Analyzer{Name: "nilaway_assertion_analyzer"}

	fset := token.NewFileSet()
	res.fset = fset
	imp := pipeImporter{}
	var upstream []analysis.PackageFact
	for _, d := range deps {
		df, err := parser.ParseFile(fset, d.file, d.src, parser.ParseComments)
		if err != nil {
			panic("dependency source does not parse: " + err.Error() + "\n" + d.src)
		}
		dp, err := (&types.Config{Importer: imp}).Check(d.path, fset, []*ast.File{df}, nil) // a dependency may import earlier ones
		if err != nil {
			panic("dependency source does not type-check: " + err.Error() + "\n" + d.src)
		}
		imp[d.path] = dp
		for _, f := range d.facts {
			upstream = append(upstream, analysis.PackageFact{Package: dp, Fact: f})
		}
	}
	file, err := parser.ParseFile(fset, fileName, src, parser.ParseComments)
	if err != nil {
		panic("generated source does not parse: " + err.Error() + "\n" + src)
	}
	info := &types.Info{
		Types: map[ast.Expr]types.TypeAndValue{}, Defs: map[*ast.Ident]types.Object{}, Uses: map[*ast.Ident]types.Object{},
		Selections: map[*ast.SelectorExpr]*types.Selection{}, Scopes: map[ast.Node]*types.Scope{}, Implicits: map[ast.Node]types.Object{},
		Instances: map[*ast.Ident]types.Instance{},
	}
	pkg, err := (&types.Config{Importer: imp}).Check(path, fset, []*ast.File{file}, info)
	if err != nil {
		panic("generated source does not type-check: " + err.Error() + "\n" + src)
	}
	conf := config.VerifConfigGrouping([]string{""}, pipeExclude, pipeGroupMessages)
	results := map[*analysis.Analyzer]interface{}{config.Analyzer: conf}
	pass := &analysis.Pass{
		Fset: fset, Files: []*ast.File{file}, Pkg: pkg, TypesInfo: info, TypesSizes: types.SizesFor("gc", "amd64"), ResultOf: results,
		Report:            func(analysis.Diagnostic) {},
		ImportPackageFact: func(p *types.Package, f analysis.Fact) bool { return false },
		ExportPackageFact: func(f analysis.Fact) { facts = append(facts, f) },
		AllPackageFacts:   func() []analysis.PackageFact { return upstream },
	}
	epass := analysishelper.NewEnhancedPass(pass)

	defer func() {
		if r := recover(); r != nil {
			if s, ok := r.(string); ok {
				res.panicked = s
			} else if e, ok := r.(error); ok {
				res.panicked = e.Error()
			} else {
				res.panicked = "panic"
			}
		}
	}()

	nolint, err := diagnostic.NoLintAnalyzer.Run(pass)
	if err != nil {
		res.funcErrs = append(res.funcErrs, err.Error())
	}
	results[diagnostic.NoLintAnalyzer] = nolint
	observed, err := annotation.VerifRun(pass)
	if err != nil {
		res.funcErrs = append(res.funcErrs, err.Error())
	}
	globalTriggers, err := global.VerifRun(pass)
	if err != nil {
		res.funcErrs = append(res.funcErrs, err.Error())
	}
	// function contracts (hand-written ones and those the REAL inferContracts derives from the REAL SSA of the package)
	contracts := functioncontracts.Map{}
	if pipeContracts {
		prog := ssa.NewProgram(fset, ssa.BuildSerially)
		ssapkg := prog.CreatePackage(pkg, []*ast.File{file}, info, false)
		ssapkg.Build()
		contracts = functioncontracts.VerifCollect([]*ast.File{file}, info, func(f *types.Func) *ssa.Function { return prog.FuncValue(f) })
		res.contracts = len(contracts)
	}
	var triggers []annotation.FullTrigger
	var perFunc [][]annotation.FullTrigger
	var decls []*ast.FuncDecl
	for _, d := range file.Decls {
		fd, ok := d.(*ast.FuncDecl)
		if !ok || fd.Body == nil {
			continue
		}
		graph := cfg.New(fd.Body, func(*ast.CallExpr) bool { return true })
		fctx := assertiontree.NewFunctionContext(epass, fd, nil, assertiontree.FunctionConfig{}, map[*ast.FuncLit]*anonymousfunc.FuncLitInfo{},
			map[*ast.Ident]types.Object{}, contracts, nil)
		trs, rounds, stable, err := assertiontree.BackpropAcrossFunc(context.Background(), epass, fd, fctx, graph)
		if pipeDebug {
			res.trace = append(res.trace, fd.Name.Name+": rounds "+strconv.Itoa(rounds)+" stable "+strconv.Itoa(stable)+" blocks "+strconv.Itoa(len(graph.Blocks)))
		}
		if err != nil {
			res.funcErrs = append(res.funcErrs, fd.Name.Name+": "+err.Error())
			continue
		}
		perFunc = append(perFunc, trs)
		decls = append(decls, fd)
		if pipeDebug {
			for _, t := range trs {
				line := 0
				if t.Consumer.Expr != nil {
					line = fset.Position(t.Consumer.Expr.Pos()).Line
				}
				g := "unmatched"
				if t.Consumer.GuardMatched {
					g = "matched"
				}
				res.trace = append(res.trace, fd.Name.Name+": "+t.Producer.Annotation.Repr().String()+" -> "+t.Consumer.Annotation.Repr().String()+" @"+strconv.Itoa(line)+" "+g)
			}
		}
	}
	// the callee's parameter/return triggers are duplicated at every call of a contracted function (function.run does this
	// after collecting the per-function results)
	function.VerifDuplicate(epass, contracts, decls, perFunc)
	for _, trs := range perFunc {
		triggers = append(triggers, trs...)
	}
	if pipeAffiliation {
		out, err := affiliation.Analyzer.Run(pass)
		if err != nil {
			res.funcErrs = append(res.funcErrs, err.Error())
		}
		if r, ok := out.(*analysishelper.Result[[]annotation.FullTrigger]); ok {
			if r.Err != nil {
				res.funcErrs = append(res.funcErrs, r.Err.Error())
			}
			triggers = append(triggers, r.Res...)
		}
	}
	triggers = append(triggers, globalTriggers...)
	res.triggers = len(triggers)
	results[assertion.Analyzer] = &analysishelper.Result[[]annotation.FullTrigger]{Res: triggers}
	results[annotation.Analyzer] = &analysishelper.Result[*annotation.ObservedMap]{Res: observed}
	out, err := run(pass)
	if err != nil {
		res.funcErrs = append(res.funcErrs, "accumulation: "+err.Error())
	}
	res.diags, _ = out.([]analysis.Diagnostic)
	return res, facts
}

var ndHarnesses = map[string]func(){"Harness_Pipe_Smoke": Harness_Pipe_Smoke, "Harness_P08": Harness_P08, "Harness_P01": Harness_P01, "Harness_P07": Harness_P07, "Harness_P01L": Harness_P01L, "Harness_P08_Ok": Harness_P08_Ok, "Harness_P01X": Harness_P01X, "Harness_P01R": Harness_P01R, "Harness_P13": Harness_P13, "Harness_P10": Harness_P10, "Harness_P09": Harness_P09, "Harness_P14": Harness_P14, "Harness_P12": Harness_P12, "Harness_P20": Harness_P20, "Harness_P10R": Harness_P10R, "Harness_P18": Harness_P18, "Harness_P13M": Harness_P13M, "Harness_P01Y": Harness_P01Y, "Harness_P10V": Harness_P10V, "Harness_P14S": Harness_P14S, "Harness_P01T": Harness_P01T}

// Harness_Pipe_Smoke: two fixed programs, one with an unguarded dereference of a nil local, one guarded.
func Harness_Pipe_Smoke() {
	bad := ndChoice("bad", 2) == 1
	src := "package p\n\nfunc f() int {\n\tvar x *int\n"
	if bad {
		src += "\treturn *x\n}\n"
	} else {
		src += "\tif x != nil {\n\t\treturn *x\n\t}\n\treturn 0\n}\n"
	}
	r := pipeAnalyse(src)
	ndObserveInt("diagnostics", len(r.diags))
	ndObserveInt("errors", len(r.funcErrs))
	ndObserveStr("panicked", r.panicked)
	for _, d := range r.diags {
		ndObserveStr("diag", d.Message)
	}
	ndAssert("pipe.no_internal_failure", r.panicked == "" && len(r.funcErrs) == 0)
	ndAssert("pipe.reported_iff_bad", (len(r.diags) > 0) == bad)
}
