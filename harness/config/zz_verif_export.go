package config

// VerifConfig lets harnesses of other packages build a Config with given scope lists (the list
// fields are unexported).
func VerifConfig(include, exclude []string, structInitV2 bool) *Config {
	return &Config{includePkgs: include, excludePkgs: exclude, ExperimentalStructInitV2Enable: structInitV2, GroupErrorMessages: true}
}

// VerifConfigGrouping is VerifConfig with the grouping flag given.
func VerifConfigGrouping(include, exclude []string, group bool) *Config {
	return &Config{includePkgs: include, excludePkgs: exclude, GroupErrorMessages: group}
}
