package accumulation

// P01L: the C01 grammar extended with loops, switches and pointer-receiver methods (same obligations as
// Harness_P01, same pipeline). A program is one "structured" statement placed before or after one statement
// of the base grammar:
//   for k := 0; k < n; k++ { S0; S0 }      (two statements: three unrollings)
//   for k := 0; k < n; k++ { S0 }          n opaque: the body runs 0, 1 or 2+ times (S0 is idempotent, so two
//                                           unrollings are every behaviour)
//   for x == nil { S0 }   for x != nil { S0 }   condition loops; a body that does not change the condition
//                                           diverges, i.e. nothing after the loop is reached on that path
//   switch { case x == nil: S0; default: S0 }      switch x { case nil: S0; default: S0 }
//   switch { case x != nil && flagK: _ = *x; default: S0 }     switch { case x == nil || flagK: S0; default: _ = *x }
//   if x != nil { for ... { _ = *x } }     if x == nil { return }; for ... { _ = *x }        (checks hoisted above loops)
//   if !(x == nil) && flagK { _ = *x }     if nil == x || flagK { return }; _ = *x           (conjunction / disjunction)
//   t = new(T) | t = nil | _ = t.val() | _ = t.safe()   with  type T int, val dereferencing its receiver and safe
//                                           checking it first
// Semantics are built as SMT terms exactly as in Harness_P01.

//verif:use zz_verif_pipe.go

// applySimple replays the semantics of simple statement `kind` under cond without emitting text.
func (g *p01Gen) applySimple(kind int, line int, cond bool) {
	switch kind {
	case 0:
		g.x = ndIteBool(cond, true, g.x)
	case 1:
		g.x = ndIteBool(cond, false, g.x)
	case 2:
		g.derefAgain(line, g.x, cond)
	case 3:
		g.x = ndIteBool(cond, g.y, g.x)
	case 4:
		g.y = ndIteBool(cond, g.x, g.y)
	case 5:
		g.x = ndIteBool(cond, g.g, g.x)
	case 6:
		g.g = ndIteBool(cond, g.x, g.g)
	case 7:
		g.derefAgain(line, g.y, cond)
	default:
		g.derefAgain(line, g.g, cond)
	}
}

// derefAgain adds one more execution of an unchecked dereference that is already listed.
func (g *p01Gen) derefAgain(line int, isNil bool, cond bool) {
	hit := ndAnd(ndAnd(g.live, cond), isNil)
	g.panics = ndOr(g.panics, hit)
	for k := range g.unchecked {
		if g.unchecked[k] == line {
			g.uncheckedP[k] = ndOr(g.uncheckedP[k], hit)
			return
		}
	}
	g.unchecked = append(g.unchecked, line)
	g.uncheckedP = append(g.uncheckedP, hit)
}

func p01SimpleText(k int) string {
	return [...]string{"x = nil", "x = new(int)", "_ = *x", "x = y", "y = x", "x = g", "g = x", "_ = *y", "_ = *g"}[k]
}

func (g *p01Gen) structured() {
	kind := ndChoice("structured", ndParam("STRUCTURED", 16))
	switch kind {
	case 0: // counted loop
		k := ndChoice("body", g.simple)
		it1, it2 := ndBool("iter1"), ndBool("iter2")
		g.emit("\tfor k := 0; k < n; k++ {")
		line := g.emit("\t\t" + p01SimpleText(k))
		g.emit("\t}")
		g.applySimple(k, line, it1)
		g.applySimple(k, line, ndAnd(it1, it2))
	case 1, 2: // condition loop on x
		k := ndChoice("body", g.simple)
		cond := "x == nil"
		if kind == 2 {
			cond = "x != nil"
		}
		g.emit("\tfor " + cond + " {")
		line := g.emit("\t\t" + p01SimpleText(k))
		g.emit("\t}")
		holds := g.x
		if kind == 2 {
			holds = ndNot(g.x)
		}
		g.applySimple(k, line, holds)
		again := g.x // the condition after one round (only meaningful if the body ran)
		if kind == 2 {
			again = ndNot(g.x)
		}
		// the body is idempotent: if the condition still holds after one round the loop never ends
		g.live = ndAnd(g.live, ndNot(ndAnd(holds, again)))
	case 3, 4: // switches on x
		k1 := ndChoice("arm_nil", g.simple)
		k2 := ndChoice("arm_default", g.simple)
		if kind == 3 {
			g.emit("\tswitch {")
			g.emit("\tcase x == nil:")
		} else {
			g.emit("\tswitch x {")
			g.emit("\tcase nil:")
		}
		l1 := g.emit("\t\t" + p01SimpleText(k1))
		g.emit("\tdefault:")
		l2 := g.emit("\t\t" + p01SimpleText(k2))
		g.emit("\t}")
		wasNil := g.x
		g.applySimple(k1, l1, wasNil)
		g.applySimple(k2, l2, ndNot(wasNil))
	case 9: // tagless switch, conjunction: the first arm is nil-checked, the default arm is not
		k2 := ndChoice("arm_default", g.simple)
		f, fv := g.flag()
		g.emit("\tswitch {")
		g.emit("\tcase x != nil && " + f + ":")
		g.emit("\t\t_ = *x")
		g.emit("\tdefault:")
		l2 := g.emit("\t\t" + p01SimpleText(k2))
		g.emit("\t}")
		g.applySimple(k2, l2, ndNot(ndAnd(ndNot(g.x), fv)))
	case 10: // tagless switch, disjunction: the default arm is nil-checked, the first arm is not
		k1 := ndChoice("arm_first", g.simple)
		f, fv := g.flag()
		g.emit("\tswitch {")
		g.emit("\tcase x == nil || " + f + ":")
		l1 := g.emit("\t\t" + p01SimpleText(k1))
		g.emit("\tdefault:")
		g.emit("\t\t_ = *x")
		g.emit("\t}")
		g.applySimple(k1, l1, ndOr(g.x, fv))
	case 15: // counted loop with a two-statement body: values travel one step per round; three unrollings are every behaviour
		k1 := ndChoice("body1", g.simple)
		k2 := ndChoice("body2", g.simple)
		it1, it2, it3 := ndBool("iter1"), ndBool("iter2"), ndBool("iter3")
		g.emit("\tfor k := 0; k < n; k++ {")
		l1 := g.emit("\t\t" + p01SimpleText(k1))
		l2 := g.emit("\t\t" + p01SimpleText(k2))
		g.emit("\t}")
		c1, c2, c3 := it1, ndAnd(it1, it2), ndAnd(ndAnd(it1, it2), it3)
		g.applySimple(k1, l1, c1)
		g.applySimple(k2, l2, c1)
		g.applySimple(k1, l1, c2)
		g.applySimple(k2, l2, c2)
		g.applySimple(k1, l1, c3)
		g.applySimple(k2, l2, c3)
	case 11: // a nil check hoisted above a loop
		g.emit("\tif x != nil {")
		g.emit("\t\tfor k := 0; k < n; k++ {")
		g.emit("\t\t\t_ = *x")
		g.emit("\t\t}")
		g.emit("\t}")
	case 12: // an early return hoisted above a loop
		g.emit("\tif x == nil {")
		g.emit("\t\treturn")
		g.emit("\t}")
		g.emit("\tfor k := 0; k < n; k++ {")
		g.emit("\t\t_ = *x")
		g.emit("\t}")
		g.live = ndAnd(g.live, ndNot(g.x))
	case 13: // conjunction with another condition, negated spelling
		f, _ := g.flag()
		g.emit("\tif !(x == nil) && " + f + " {")
		g.emit("\t\t_ = *x")
		g.emit("\t}")
	case 14: // disjunction with another condition guarding an early return
		f, fv := g.flag()
		g.emit("\tif nil == x || " + f + " {")
		g.emit("\t\treturn")
		g.emit("\t}")
		g.emit("\t_ = *x")
		g.live = ndAnd(g.live, ndNot(ndOr(g.x, fv)))
	case 5:
		g.emit("\tt = new(T)")
		g.t = false
	case 6:
		g.emit("\tt = nil")
		g.t = true
	case 7:
		g.emit("\t_ = t.val()")
		g.usesVal = true
		g.panics = ndOr(g.panics, ndAnd(g.live, g.t))
		g.valHit = ndOr(g.valHit, ndAnd(g.live, g.t))
	default:
		g.emit("\t_ = t.safe()")
	}
}

// guardedReturn emits a nil-checked dereference whose branch leaves the function, in one of three spellings.
func (g *p01Gen) guardedReturn() {
	switch ndChoice("guard_spelling", 3) {
	case 0:
		g.emit("\tif x != nil {")
	case 1:
		g.emit("\tif nil != x {")
	default:
		g.emit("\tif !(x == nil) {")
	}
	g.emit("\t\t_ = *x")
	g.emit("\t\treturn")
	g.emit("\t}")
	g.live = ndAnd(g.live, g.x)
}

func Harness_P01L() {
	g := &p01Gen{x: true, y: true, g: true, t: true, live: true, calleeKind: -1, simple: ndParam("SIMPLE", 9)}
	compound := ndParam("COMPOUND", 4)
	g.emit("package p")
	g.emit("")
	g.emit("type T int")
	g.emit("")
	valLine := 0
	g.emit("func (t *T) val() int {")
	valLine = g.emit("\treturn int(*t)")
	g.emit("}")
	g.emit("")
	g.emit("func (t *T) safe() int {")
	g.emit("\tif t == nil {")
	g.emit("\t\treturn 0")
	g.emit("\t}")
	g.emit("\treturn int(*t)")
	g.emit("}")
	g.emit("")
	g.emit("var flag0, flag1, flag2, flag3, calleeflag bool")
	g.emit("var n int")
	g.emit("var g *int")
	g.emit("")
	g.emit("func Entry() {")
	g.emit("\tvar x, y *int")
	g.emit("\tvar t *T")
	orderMin := ndParam("ORDERMIN", 0)
	switch orderMin + ndChoice("order", ndParam("ORDERS", 5)-orderMin) {
	case 0:
		g.structured()
		g.stmt(compound)
	case 1:
		g.stmt(compound)
		g.structured()
	case 2:
		g.guardedReturn()
		g.structured()
	case 3:
		g.structured()
		g.guardedReturn()
	default:
		g.structured()
		g.structured()
	}
	g.emit("\t_, _, _ = x, y, t")
	g.emit("}")
	calleeDeref := 0
	if g.calleeKind >= 0 {
		calleeDeref = g.emitCallee()
	}
	src := g.b.String()
	ndObserveStr("source", src)
	g.judge(src, calleeDeref, valLine)
}
