package accumulation

// C14 at source level: every diagnostic of the real pipeline points at a real source line and carries a coherent
// flow. The programs are those of Harness_P01X (two packages: the callee and the package-level pointer in a
// dependency) - so findings located in a dependency's file, reported while analysing the importer, are included.
//   C14.X1  the diagnostic position is valid (> 0) and resolves to p.go or q.go at an existing line and column
//   C14.X2  the message lists at least one flow step
//   C14.X3  every step that carries a position ("\t- file:line:col: ...") names an existing file:line:column
//   C14.X4  when the last step carries a position it is the reported position

//verif:use zz_verif_pipe.go

import (
	"strconv"
	"strings"
)

// p14Exists reports whether file:line:col exists in the given sources (columns may point just past the line's end).
func p14Exists(sources map[string][]string, file string, line, col int) bool {
	lines, ok := sources[file]
	if !ok || line < 1 || line > len(lines) || col < 1 {
		return false
	}
	return col <= len(lines[line-1])+1
}

// p14ParsePos parses "file:line:col" (the file name contains no colon here).
func p14ParsePos(s string) (file string, line, col int, ok bool) {
	parts := strings.Split(s, ":")
	if len(parts) != 3 {
		return "", 0, 0, false
	}
	l, err1 := strconv.Atoi(parts[1])
	c, err2 := strconv.Atoi(parts[2])
	if err1 != nil || err2 != nil {
		return "", 0, 0, false
	}
	return parts[0], l, c, true
}

func Harness_P14() {
	n := ndParam("STMTS", 2)
	compound := ndParam("COMPOUND", 5)
	g := &p01Gen{x: true, y: true, g: true, live: true, calleeKind: -1, simple: ndParam("SIMPLE", 9)}
	g.emit("package p")
	g.emit("import \"m/q\"")
	g.emit("var flag0, flag1, flag2, flag3 bool")
	g.emit("var _ = q.Calleeflag")
	g.emit("")
	g.emit("func Entry() {")
	g.emit("\tvar x, y *int")
	for k := 0; k < n; k++ {
		g.stmt(compound)
	}
	g.emit("\t_, _ = x, y")
	g.emit("}")
	src := strings.NewReplacer("callee(", "q.Callee(", "x = g\n", "x = q.G\n", "g = x\n", "q.G = x\n", "*g\n", "*q.G\n").Replace(g.b.String())
	dep, _ := p01xDep(g.calleeKind, g.calleeKind >= 0 && ndChoice("unexported_helper", 2) == 1)
	ndObserveStr("source_q", dep)
	ndObserveStr("source_p", src)
	sources := map[string][]string{"p.go": strings.Split(src, "\n"), "q.go": strings.Split(dep, "\n")}

	rq, facts := pipeAnalysePkg("m/q", "q.go", dep, nil)
	rp, _ := pipeAnalysePkg("m/p", "p.go", src, []pipeDep{{path: "m/q", file: "q.go", src: dep, facts: facts}})
	for _, r := range []pipeResult{rq, rp} {
		p14CheckDiags(r, sources)
	}
}

// p14CheckDiags states C14.X1-X4 for every diagnostic of one analysis result.
func p14CheckDiags(r pipeResult, sources map[string][]string) {
	for _, d := range r.diags {
		ndObserveStr("diag", d.Message)
		ndAssert("C14.X1.position_is_valid", d.Pos > 0)
		pos := r.fset.Position(d.Pos)
		ndObserveStr("position", pos.String())
		ndAssert("C14.X1.position_resolves_to_an_existing_line_of_the_analysed_sources", p14Exists(sources, pos.Filename, pos.Line, pos.Column))
		steps := 0
		last := ""
		for _, line := range strings.Split(d.Message, "\n") {
			if !strings.HasPrefix(line, "\t- ") {
				continue
			}
			steps++
			last = ""
			rest := line[len("\t- "):]
			if strings.HasPrefix(rest, "<no pos info>") {
				continue
			}
			// "file:line:col: text"
			k := strings.Index(rest, ": ")
			if k < 0 {
				ndAssert("C14.X3.flow_step_has_a_position_or_says_it_has_none", false)
				continue
			}
			f, l, c, ok := p14ParsePos(rest[:k])
			ndAssert("C14.X3.flow_step_position_is_well_formed", ok)
			if ok {
				ndAssert("C14.X3.flow_step_names_an_existing_file_line_column", p14Exists(sources, f, l, c))
				last = rest[:k]
			}
		}
		ndAssert("C14.X2.message_lists_at_least_one_flow_step", steps > 0)
		if last != "" {
			ndAssert("C14.X4.last_positioned_step_is_the_reported_position", last == pos.Filename+":"+strconv.Itoa(pos.Line)+":"+strconv.Itoa(pos.Column))
		}
	}
}

// Harness_P14S: the same obligations for a source file that consists of a SINGLE line (a file without a second
// line start gives the diagnostic engine no gap between line starts to tell it from an importer-made stand-in).
func Harness_P14S() {
	var src string
	switch ndChoice("program", 3) {
	case 0:
		src = "package p; func f() int { var x *int; return *x }"
	case 1:
		src = "package p; var g *int; func f() int { return *g }"
	default:
		src = "package p; func h(a *int) int { return *a }; func f() int { return h(nil) }"
	}
	ndObserveStr("source", src)
	r := pipeAnalyse(src)
	ndObserveInt("diagnostics", len(r.diags))
	ndAssert("C14.X0.the_single_line_program_is_reported", len(r.diags) > 0)
	p14CheckDiags(r, map[string][]string{"p.go": strings.Split(src, "\n")})
}
