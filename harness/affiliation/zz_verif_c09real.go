package affiliation

// C09 through the real front end, nothing stubbed: two packages are printed as Go source, parsed
// and type-checked by the REAL go/parser and go/types (executed from SSA by symx), and the REAL
// (*Affiliation).extractAffiliations runs on each pass - conversion-site collection, cache lookup,
// trigger creation and the Cache fact handed from the dependency to the importer.
//
// Dependency m/q and importer m/p both declare interfaces I, J and a struct S with the same bare
// names (J may embed I and/or the builtin error); each converts S to I and to J in a chosen order.
// Every conversion to an interface must produce the full set of triggers for that interface's
// in-scope methods exactly once per package, whatever the dependency did.

//verif:init go/types
//verif:init go/token
//verif:init go/ast
//verif:init go/scanner
//verif:init go/parser

import (
	"go/ast"
	"go/parser"
	"go/token"
	"go/types"
	"strings"

	"go.uber.org/nilaway/config"
	"go.uber.org/nilaway/util/analysishelper"
	"golang.org/x/tools/go/analysis"
)

type c09rImporter map[string]*types.Package

func (m c09rImporter) Import(path string) (*types.Package, error) { return m[path], nil }

func c09rSource(pkgName string, sh c09Shape, iFirst bool, imports string) string {
	src := c09Source(sh)
	src = strings.Replace(src, "package p\n", "package "+pkgName+"\n"+imports, 1)
	var b strings.Builder
	b.WriteString(src)
	b.WriteString("\nfunc use() {\n")
	if iFirst {
		b.WriteString("\tvar i I = S{}\n\tvar j J = S{}\n")
	} else {
		b.WriteString("\tvar j J = S{}\n\tvar i I = S{}\n")
	}
	b.WriteString("\t_, _ = i, j\n}\n")
	return b.String()
}

type c09rResult struct {
	triggers int
	cache    *Cache
}

func c09rAnalyse(path, name, src string, imp c09rImporter, upstream []analysis.PackageFact) (c09rResult, *types.Package) {
	fset := token.NewFileSet()
	f, err := parser.ParseFile(fset, name+".go", src, 0)
	if err != nil {
		panic("generated source does not parse: " + err.Error() + "\n" + src)
	}
	info := &types.Info{Types: map[ast.Expr]types.TypeAndValue{}, Defs: map[*ast.Ident]types.Object{}, Uses: map[*ast.Ident]types.Object{}}
	pkg, err := (&types.Config{Importer: imp}).Check(path, fset, []*ast.File{f}, info)
	if err != nil {
		panic("generated source does not type-check: " + err.Error() + "\n" + src)
	}
	var res c09rResult
	pass := analysishelper.NewEnhancedPass(&analysis.Pass{Fset: fset, Files: []*ast.File{f}, Pkg: pkg, TypesInfo: info,
		AllPackageFacts:   func() []analysis.PackageFact { return upstream },
		ExportPackageFact: func(fact analysis.Fact) { res.cache = fact.(*Cache) }})
	a := &Affiliation{conf: config.VerifConfig([]string{""}, nil, false)} // default scope: every package
	a.extractAffiliations(pass)
	res.triggers = len(a.triggers)
	return res, pkg
}

func Harness_C09_Real() {
	sh := c09Shape{embed: ndChoice("j_embeds_i", 2) == 1, withArg: ndChoice("methods_take_arg", 2) == 1, embedErr: ndChoice("j_embeds_error", 2) == 1}
	sh.iNames = [][]string{{"M"}, {"M", "N"}}[ndChoice("i_methods", 2)]
	switch ndChoice("j_methods", 4) {
	case 0:
		sh.jNames = []string{"A"}
	case 1:
		sh.jNames = []string{"Z"}
	case 2:
		sh.jNames = []string{"A", "Z"}
	case 3:
		sh.jNames = nil
	}
	if !sh.embed && len(sh.jNames) == 0 && !sh.embedErr {
		return
	}
	per := 1
	if sh.withArg {
		per = 2
	}
	nI := len(sh.iNames)
	nJ := len(sh.jNames)
	if sh.embed {
		nJ += len(sh.iNames)
	}
	want := per * (nI + nJ) // error.Error is out of scope: no triggers for it

	iFirstDep := ndChoice("dependency_converts_to_I_first", 2) == 1
	iFirst := ndChoice("importer_converts_to_I_first", 2) == 1
	withDep := ndChoice("with_dependency", 2) == 1
	var upstream []analysis.PackageFact
	imp := c09rImporter{}
	imports := ""
	if withDep {
		dep, depPkg := c09rAnalyse("m/q", "q", c09rSource("q", sh, iFirstDep, ""), imp, nil)
		ndObserveInt("dependency_triggers", dep.triggers)
		ndAssert("C09.R.dependency_analyses_both_conversions", dep.triggers == want)
		if dep.cache != nil {
			upstream = append(upstream, analysis.PackageFact{Package: depPkg, Fact: dep.cache})
		}
		imp["m/q"] = depPkg
		imports = "\nimport _ \"m/q\"\n"
	}
	loc, _ := c09rAnalyse("m/p", "p", c09rSource("p", sh, iFirst, imports), imp, upstream)
	ndObserveInt("importer_triggers", loc.triggers)
	ndAssert("C09.R.every_conversion_of_a_distinct_pair_is_analysed_in_full", loc.triggers == want)
}
