package tokenhelper

// C19-K1: Converse / Inverse keep the meaning of a comparison (DESIGN.md section 4, C19).
// The token is symbolic over 0..127 (every token.Token value the go/token package defines is
// below 90); operands are symbolic over their whole domain: int64 (2^128 pairs), uint64, and
// printable-ASCII strings of length <= 6.

//verif:init go/token

import (
	"go/token"
	"math"
)

var ndHarnesses = map[string]func(){
	"Harness_C19_K1_int":    Harness_C19_K1_int,
	"Harness_C19_K1_uint":   Harness_C19_K1_uint,
	"Harness_C19_K1_string": Harness_C19_K1_string,
	"Harness_C14_Rel":       Harness_C14_Rel,
}

func isComparison(t token.Token) bool {
	return ndOr(ndOr(ndOr(t == token.EQL, t == token.NEQ), ndOr(t == token.LSS, t == token.GTR)), ndOr(t == token.LEQ, t == token.GEQ))
}

func tryConverse(t token.Token) (r token.Token, panicked bool) {
	defer func() {
		if recover() != nil {
			panicked = true
		}
	}()
	return Converse(t), false
}

func tryInverse(t token.Token) (r token.Token, panicked bool) {
	defer func() {
		if recover() != nil {
			panicked = true
		}
	}()
	return Inverse(t), false
}

func evalInt(t token.Token, a, b int64) bool {
	switch t {
	case token.EQL:
		return a == b
	case token.NEQ:
		return a != b
	case token.LSS:
		return a < b
	case token.GTR:
		return a > b
	case token.LEQ:
		return a <= b
	case token.GEQ:
		return a >= b
	}
	panic("evalInt: not a comparison")
}

func evalUint(t token.Token, a, b uint64) bool {
	switch t {
	case token.EQL:
		return a == b
	case token.NEQ:
		return a != b
	case token.LSS:
		return a < b
	case token.GTR:
		return a > b
	case token.LEQ:
		return a <= b
	case token.GEQ:
		return a >= b
	}
	panic("evalUint: not a comparison")
}

func evalString(t token.Token, a, b string) bool {
	switch t {
	case token.EQL:
		return a == b
	case token.NEQ:
		return a != b
	case token.LSS:
		return a < b
	case token.GTR:
		return a > b
	case token.LEQ:
		return a <= b
	case token.GEQ:
		return a >= b
	}
	panic("evalString: not a comparison")
}

// common part: panics exactly outside the six comparisons; involutions; commutation.
func c19Algebra(t token.Token) (conv, inv token.Token, ok bool) {
	cmp := isComparison(t)
	conv, cp := tryConverse(t)
	inv, ip := tryInverse(t)
	ndAssert("C19.K1.converse_panics_iff_not_comparison", ndIff(cp, ndNot(cmp)))
	ndAssert("C19.K1.inverse_panics_iff_not_comparison", ndIff(ip, ndNot(cmp)))
	if cp || ip {
		return 0, 0, false
	}
	ndObserveInt("tok", int(t))
	ndObserveInt("converse", int(conv))
	ndObserveInt("inverse", int(inv))
	ndAssert("C19.K1.converse_involution", Converse(conv) == t)
	ndAssert("C19.K1.inverse_involution", Inverse(inv) == t)
	ndAssert("C19.K1.converse_inverse_commute", Converse(inv) == Inverse(conv))
	ndAssert("C19.K1.results_are_comparisons", ndAnd(isComparison(conv), isComparison(inv)))
	return conv, inv, true
}

func Harness_C19_K1_int() {
	t := token.Token(ndInt("tok", 0, 127))
	a := int64(ndInt("a", math.MinInt64, math.MaxInt64))
	b := int64(ndInt("b", math.MinInt64, math.MaxInt64))
	conv, inv, ok := c19Algebra(t)
	if !ok {
		return
	}
	ndAssert("C19.K1.int.converse_equiv", ndIff(evalInt(t, a, b), evalInt(conv, b, a)))
	ndAssert("C19.K1.int.inverse_negates", ndIff(evalInt(t, a, b), ndNot(evalInt(inv, a, b))))
	ndObserveBool("holds", evalInt(t, a, b))
}

func Harness_C19_K1_uint() {
	t := token.Token(ndInt("tok", 0, 127))
	a := uint64(ndInt("a", math.MinInt64, math.MaxInt64))
	b := uint64(ndInt("b", math.MinInt64, math.MaxInt64))
	conv, inv, ok := c19Algebra(t)
	if !ok {
		return
	}
	ndAssert("C19.K1.uint.converse_equiv", ndIff(evalUint(t, a, b), evalUint(conv, b, a)))
	ndAssert("C19.K1.uint.inverse_negates", ndIff(evalUint(t, a, b), ndNot(evalUint(inv, a, b))))
	ndObserveBool("holds", evalUint(t, a, b))
}

func Harness_C19_K1_string() {
	t := token.Token(ndInt("tok", 0, 127))
	a := ndStr("a", 6)
	b := ndStr("b", 6)
	conv, inv, ok := c19Algebra(t)
	if !ok {
		return
	}
	ndAssert("C19.K1.string.converse_equiv", ndIff(evalString(t, a, b), evalString(conv, b, a)))
	ndAssert("C19.K1.string.inverse_negates", ndIff(evalString(t, a, b), ndNot(evalString(inv, a, b))))
	ndObserveBool("holds", evalString(t, a, b))
}
