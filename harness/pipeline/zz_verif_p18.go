package accumulation

// C18 at source level: results do not depend on where the module lives or where the tool starts. The
// two-package programs of Harness_P01X are analysed by the real pipeline under three layouts:
//   L1  module at /m       (files /m/q/q.go, /m/p/p.go),             tool started in /m
//   L2  module at /srv/x/m (files /srv/x/m/q/q.go, /srv/x/m/p/p.go), tool started in /srv/x/m      - relocated
//   L3  module at /m,                                                 tool started in /m/p          - other cwd
//   L4  module at /m,                                                 tool started in /m/q          - the dependency's directory
// The working directory is what tokenhelper captured at start-up (set through an export helper); file names
// reach NilAway through the file set exactly as a driver would register them.
//   C18.X1  L2 reports exactly what L1 reports: same number of diagnostics, same lines, byte-identical messages
//           (all printed paths are relative to the working directory, which moved with the module)
//   C18.X2  L3 and L4 report the same positions (file, line, column) and the same message texts
//           - in particular every cross-package flow of L1 is still found when dependency and importer are
//           analysed with a working directory that is not the module root

//verif:use zz_verif_pipe.go

import (
	"path/filepath"
	"sort"
	"strconv"
	"strings"

	"go.uber.org/nilaway/util/tokenhelper"
)

// p18Run analyses the two packages with the module rooted at root and the tool started in cwd; it returns the
// sorted list of "base file:line" of all diagnostics and the concatenated messages.
func p18Run(root, cwd, dep, src string) ([]string, string, bool) {
	tokenhelper.VerifSetCwd(cwd)
	rq, facts := pipeAnalysePkg("m/q", root+"/q/q.go", dep, nil)
	rp, _ := pipeAnalysePkg("m/p", root+"/p/p.go", src, []pipeDep{{path: "m/q", file: root + "/q/q.go", src: dep, facts: facts}})
	var places, texts []string
	msgs := ""
	ok := rq.panicked == "" && rp.panicked == "" && len(rq.funcErrs) == 0 && len(rp.funcErrs) == 0
	for _, r := range []pipeResult{rq, rp} {
		for _, d := range r.diags {
			pos := r.fset.Position(d.Pos)
			places = append(places, filepath.Base(pos.Filename)+":"+strconv.Itoa(pos.Line)+":"+strconv.Itoa(pos.Column))
			texts = append(texts, d.Message)
		}
	}
	sort.Strings(places)
	// the SET of diagnostics is what the property is about: the order in which a driver prints them follows the
	// relativised file names and does change with the start directory
	sort.Strings(texts)
	msgs = strings.Join(texts, "\n")
	return places, msgs, ok
}

func Harness_P18() {
	n := ndParam("STMTS", 2)
	compound := ndParam("COMPOUND", 5)
	g := &p01Gen{x: true, y: true, g: true, live: true, calleeKind: -1, simple: ndParam("SIMPLE", 9)}
	g.emit("package p")
	g.emit("import \"m/q\"")
	g.emit("var flag0, flag1, flag2, flag3 bool")
	g.emit("var _ = q.Calleeflag")
	g.emit("")
	g.emit("func Entry() {")
	g.emit("\tvar x, y *int")
	for k := 0; k < n; k++ {
		g.stmt(compound)
	}
	g.emit("\t_, _ = x, y")
	g.emit("}")
	src := strings.NewReplacer("callee(", "q.Callee(", "x = g\n", "x = q.G\n", "g = x\n", "q.G = x\n", "*g\n", "*q.G\n").Replace(g.b.String())
	dep, _ := p01xDep(g.calleeKind, false)
	ndObserveStr("source_q", dep)
	ndObserveStr("source_p", src)

	p1, m1, ok1 := p18Run("/m", "/m", dep, src)
	p2, m2, ok2 := p18Run("/srv/x/m", "/srv/x/m", dep, src)
	p3, m3, ok3 := p18Run("/m", "/m/p", dep, src)
	p4, m4, ok4 := p18Run("/m", "/m/q", dep, src)
	tokenhelper.VerifSetCwd("/m")
	ndObserveStr("messages_L1", m1)
	ndObserveStr("messages_L3", m3)
	ndAssert("C18.X0.no_internal_failure", ok1 && ok2 && ok3 && ok4)
	ndAssert("C18.X1.relocated_module_reports_the_same_places", strings.Join(p1, ",") == strings.Join(p2, ","))
	ndAssert("C18.X1.relocated_module_prints_byte_identical_messages", m1 == m2)
	ndAssert("C18.X2.other_working_directory_reports_the_same_places", strings.Join(p1, ",") == strings.Join(p3, ",") && strings.Join(p1, ",") == strings.Join(p4, ","))
	// the texts name files by the last directory levels of their absolute names, so they do not depend on the start directory either
	ndAssert("C18.X2.other_working_directory_prints_the_same_messages", m1 == m3 && m1 == m4)
}
