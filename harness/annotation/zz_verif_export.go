package annotation

import (
	"go/types"

	"golang.org/x/tools/go/analysis"
)

// VerifObservedMap lets harnesses of other packages build an ObservedMap (its fields are
// unexported): explicit annotations on package-level variables and on struct fields.
func VerifObservedMap(globals, fields map[*types.Var]Val) *ObservedMap {
	return &ObservedMap{
		fieldAnnMap:      fields,
		globalVarsAnnMap: globals,
	}
}

// VerifRun lets harnesses of other packages run this analyzer's (unexported) run function.
func VerifRun(p *analysis.Pass) (*ObservedMap, error) { return run(p) }
