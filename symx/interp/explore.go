// Path exploration by decision replay.

package interp

import (
	"fmt"
	"go/types"
	"os"
	"os/exec"
	"runtime"
	"sort"
	"strings"
	"sync"
	"sync/atomic"
	"time"

	"golang.org/x/tools/go/ssa"
)

// engineError aborts a path as INCONCLUSIVE: the executor cannot represent what the code did.
type engineError struct{ msg string }

func (e engineError) Error() string { return "symx: " + e.msg }

// pathStop ends a path without a verdict on the code: an assumption failed
// (pruned) or a budget was hit (inconclusive).
type pathStop struct {
	reason string
	pruned bool // true: nd.Assume(false) / infeasible; false: budget
}

// targetRuntimeError is a run-time panic of the program under test that the
// executor raises itself (the Go runtime raises the others: nil dereference, index).
type targetRuntimeError string

func (e targetRuntimeError) Error() string { return "runtime error: " + string(e) }
func (e targetRuntimeError) RuntimeError() {}

// Config describes one exploration.
type Config struct {
	Prog             *ssa.Program
	Entry            *ssa.Function
	Workers          int
	Solver           SolverSpec
	QueryTimeoutMs   int
	StepBudget       int64 // SSA instructions per path
	PathBudget       int64 // completed+pruned paths per exploration
	MaxViolations    int   // stored per assertion id
	SampleEvery      int   // keep the replay vector of every k-th completed path (0 = none)
	MaxSamples       int
	Stubs            map[string]*ssa.Function // ssa function String() -> replacement
	InitPkgs         []string                 // packages whose own initialiser statements are executed first
	Params           map[string]int64         // ndParam values (bounds chosen by the tier)
	DumpDir          string                   // where queries answered unknown are written
	Trace            bool
	Deadline         time.Time
	VerifyUnsatEvery int     // cross-check every k-th unsat-pruned side with z3 5.1.0 and cvc5 (0 = off)
	Prefix           []int32 // start exploration at this decision prefix
	Single           bool    // follow one path only (debugging)
}

// NDValue is one entry of a replay vector: the value an nd* call returned.
type NDValue struct {
	Name  string `json:"name"`
	Kind  string `json:"kind"` // int bool str choice
	Value any    `json:"value"`
}

// Violation is a failed assertion or an unexpected panic of the code under test.
type Violation struct {
	ID        string    `json:"id"`
	Kind      string    `json:"kind"` // assert | panic
	Msg       string    `json:"msg"`
	Decisions []int32   `json:"decisions"`
	Vector    []NDValue `json:"vector"`
	Observed  []string  `json:"observed"`
	Where     string    `json:"where"`
	PC        []string  `json:"pc,omitempty"`
}

// Sample is the replay vector of a completed path with what symx observed on it.
type Sample struct {
	Decisions []int32   `json:"decisions"`
	Vector    []NDValue `json:"vector"`
	Observed  []string  `json:"observed"`
	Asserts   []string  `json:"asserts_failed"`
	Panic     string    `json:"panic"`
}

// Result of an exploration.
type Result struct {
	Completed      int64
	Pruned         int64 // paths ended by a failed assumption
	Forks          int64 // choice points with >1 feasible side
	SolverDecided  int64 // branch sides decided by the solver
	UnsatPruned    int64 // sides proved infeasible
	UnknownKept    int64 // sides kept on unknown
	AssertsChecked int64 // assertion obligations discharged (symbolic)
	AssertsConc    int64 // assertion obligations evaluated concretely
	Queries        int64
	SolverNanos    int64
	Steps          int64
	CacheHits      int64 // branch sides decided from an earlier unsat answer on the same path
	CrossChecked   int64 // unsat answers re-posed to the other solvers
	CrossDisagree  int64
	PathsRechecked int64 // completed paths whose final path condition was re-checked satisfiable
	SolverErrors   int64 // (error ...) answers of incremental sessions (the query goes to the portfolio, the session is discarded)
	SolverHangs    int64 // incremental sessions killed by the watchdog (solver ignored its time limit) and restarted
	FreshRetries   int64 // queries re-posed to fresh solver processes after an incremental unknown
	FreshDecided   int64
	MapRangesFixed int64 // range over a map with >=2 entries executed in insertion order only
	MapRangesPerm  int64 // … executed under every order
	Violations     map[string][]Violation
	ViolationCount map[string]int64
	Inconclusive   []string
	Samples        []Sample
	Funcs          map[string]int64 // functions executed -> call count
	Intrinsics     map[string]int64
	StubsHit       map[string]int64
	Wall           time.Duration
}

type workItem struct{ prefix []int32 }

type explorer struct {
	cfg      Config
	mu       sync.Mutex
	cond     *sync.Cond
	stack    []workItem
	active   int
	stop     bool
	res      *Result
	pathsRun int64
	dumpSeq  int64
	shared   *sharedInfo
}

type ndvar struct {
	name  string
	kind  string // int bool str choice
	bk    types.BasicKind
	term  string // SMT constant name; "" for concrete choices
	value any    // concrete value for choices
}

// path is the per-path execution context.
type path struct {
	ex             *explorer
	sv             *solver
	prefix         []int32
	decisions      []int32
	pc             []string
	nd             []ndvar
	nameSeq        int
	steps          int64
	observed       []string
	observedSym    []obsEntry
	lastModel      map[string]string
	modelFromFresh bool
	assertFail     []string
	expectPan      bool
	mapPerm        bool
	defs           map[string]string
	whereFn        func() string
	intRanges      map[string][2]int64
	unsatCache     map[string]bool
	script         []string
}

// fresh returns a name never used before in this solver session (z3 4.8.12 was
// seen to answer from a stale body when a define-fun name was re-defined with a
// different body after a pop).
func (p *path) fresh(prefix string) string {
	p.sv.nameSeq++
	return fmt.Sprintf("%s!%d", prefix, p.sv.nameSeq)
}

func (p *path) assert(t string) {
	if t == "true" || t == "" {
		return
	}
	p.pc = append(p.pc, t)
	p.emit("(assert " + t + ")")
}

func (p *path) declare(name, sort string) {
	p.emit("(declare-const " + name + " " + sort + ")")
}

// emit sends a path-level command (declaration, definition, assertion) and
// records it so that the path condition can be re-posed to a fresh solver.
func (p *path) emit(line string) {
	p.script = append(p.script, line)
	p.sv.send(line)
}

// fallbackSolvers are tried one-shot, in order, when the incremental session
// answers unknown: a fresh process of the same solver, then the two others.
var fallbackSolvers = []SolverSpec{
	{"z3-4.8.12", []string{"z3", "-in", "-T:60", "-memory:6000"}},
	{"z3-5.1.0", []string{"z3-new", "-in", "-T:60", "-memory:6000"}},
	{"cvc5-1.0", []string{"cvc5", "--lang=smt2", "--strings-exp", "--tlimit=60000"}},
}

// modelFresh obtains model values for names from a fresh solver process.
func (p *path) modelFresh(names []string) (map[string]string, bool) {
	var b strings.Builder
	b.WriteString("(set-logic ALL)\n(set-option :produce-models true)\n")
	for _, l := range p.script {
		b.WriteString(l)
		b.WriteByte('\n')
	}
	for _, l := range p.sv.scope {
		b.WriteString(l)
		b.WriteByte('\n')
	}
	b.WriteString("(check-sat)\n(get-value (" + strings.Join(names, " ") + "))\n")
	atomic.AddInt64(&p.ex.res.FreshRetries, 1)
	for _, spec := range fallbackSolvers[:2] {
		cmd := exec.Command(spec.Argv[0], spec.Argv[1:]...)
		cmd.Stdin = strings.NewReader(b.String())
		out, _ := cmd.CombinedOutput()
		s := strings.TrimSpace(string(out))
		if !strings.HasPrefix(s, "sat") {
			continue
		}
		rest := strings.TrimSpace(s[3:])
		lst, ok := parseSexp(rest).([]any)
		if !ok {
			continue
		}
		vals := map[string]string{}
		for _, pr := range lst {
			if pair, ok := pr.([]any); ok && len(pair) == 2 {
				if name, ok := pair[0].(string); ok {
					vals[name] = sexpString(pair[1])
				}
			}
		}
		atomic.AddInt64(&p.ex.res.FreshDecided, 1)
		return vals, true
	}
	return nil, false
}

// crossCheckUnsat re-poses pc ∧ g, which the session answered unsat, to z3 5.1.0 and cvc5.
func (p *path) crossCheckUnsat(g string) {
	var b strings.Builder
	b.WriteString("(set-logic ALL)\n")
	for _, l := range p.script {
		b.WriteString(l)
		b.WriteByte('\n')
	}
	b.WriteString("(assert " + g + ")\n(check-sat)\n")
	for _, spec := range fallbackSolvers[1:] {
		cmd := exec.Command(spec.Argv[0], spec.Argv[1:]...)
		cmd.Stdin = strings.NewReader(b.String())
		out, _ := cmd.CombinedOutput()
		ans := strings.TrimSpace(string(out))
		atomic.AddInt64(&p.ex.res.CrossChecked, 1)
		if ans == "sat" {
			atomic.AddInt64(&p.ex.res.CrossDisagree, 1)
			p.ex.inconclusive(fmt.Sprintf("solver disagreement: session said unsat, %s says sat [decisions %v]", spec.Name, p.decisions))
			if p.ex.cfg.DumpDir != "" {
				os.WriteFile(fmt.Sprintf("%s/disagree-%d.smt2", p.ex.cfg.DumpDir, atomic.AddInt64(&p.ex.dumpSeq, 1)), []byte(b.String()), 0o644)
			}
		}
	}
}

// solveFresh decides pc ∧ extra with fresh solver processes.
func (p *path) solveFresh(extra string) string {
	var b strings.Builder
	b.WriteString("(set-logic ALL)\n")
	for _, l := range p.script {
		b.WriteString(l)
		b.WriteByte('\n')
	}
	if extra != "" {
		b.WriteString("(assert " + extra + ")\n")
	}
	b.WriteString("(check-sat)\n")
	atomic.AddInt64(&p.ex.res.FreshRetries, 1)
	for _, spec := range fallbackSolvers {
		cmd := exec.Command(spec.Argv[0], spec.Argv[1:]...)
		cmd.Stdin = strings.NewReader(b.String())
		out, _ := cmd.CombinedOutput()
		ans := strings.TrimSpace(string(out))
		if ans == "sat" || ans == "unsat" {
			atomic.AddInt64(&p.ex.res.FreshDecided, 1)
			return ans
		}
	}
	if p.ex.cfg.DumpDir != "" {
		n := atomic.AddInt64(&p.ex.dumpSeq, 1)
		os.WriteFile(fmt.Sprintf("%s/fresh-unknown-%d.smt2", p.ex.cfg.DumpDir, n), []byte(b.String()), 0o644)
	}
	return "unknown"
}

// checkHungSafe poses pc ∧ g to the incremental session. If the solver process had to be killed by the
// watchdog (it ignored its time limit), the session is restarted, the path's script re-sent, and the
// answer is "unknown" (the fresh-process portfolio decides next).
func (p *path) checkHungSafe(g string) (r string) {
	defer func() {
		if e := recover(); e != nil {
			// the solver process is gone: killed by the watchdog (it ignored its time limit), by its own memory limit or by
			// the kernel's OOM killer (z3 was seen to grow to 8 GB on single queries). Either way the query is undecided.
			ee, isEngine := e.(engineError)
			died := isEngine && (strings.Contains(ee.msg, "solver died") || strings.Contains(ee.msg, "solver write failed"))
			if !p.sv.hung && !died {
				panic(e)
			}
			atomic.AddInt64(&p.ex.res.SolverHangs, 1)
			if err := p.sv.restart(); err != nil {
				panic(engineError{"cannot restart a hung solver: " + err.Error()})
			}
			savedLog := p.sv.log
			p.sv.log = nil
			p.sv.send("(push 1)") // the path's own scope (runPath pops it at the end)
			for _, l := range p.script {
				p.sv.send(l)
			}
			p.sv.log = savedLog
			p.sv.hungJustRestarted = true
			r = "unknown"
		}
	}()
	p.sv.send("(push 1)")
	p.sv.send("(assert " + g + ")")
	r = p.sv.checkSat()
	p.sv.send("(pop 1)")
	return r
}

// check decides pc ∧ g.
// resync replaces the worker's solver process by a fresh one and re-sends the path's script. It is used after
// the session answered unknown (a per-query timeout): z3 4.8.12 sessions were observed to answer later queries
// of the same session wrongly after a timed-out check (the sampled cross-check found disagreements only in
// runs with timeouts), so a session is never trusted again once it has timed out.
func (p *path) resync() {
	if err := p.sv.restart(); err != nil {
		panic(engineError{"cannot restart the solver session: " + err.Error()})
	}
	atomic.AddInt64(&p.ex.res.SolverHangs, 1)
	savedLog := p.sv.log
	p.sv.log = nil
	p.sv.send("(push 1)") // the path's own scope (runPath pops it at the end)
	for _, l := range p.script {
		p.sv.send(l)
	}
	p.sv.log = savedLog
}

// ensureFresh restarts a session that timed out or printed an error before it is used again.
func (p *path) ensureFresh() {
	if p.sv.stale {
		p.resync()
	}
}

func (p *path) check(g string) string {
	p.ensureFresh()
	r := p.checkHungSafe(g)
	p.sv.hungJustRestarted = false
	p.ensureFresh()
	if r == "unknown" {
		r = p.solveFresh(g)
	}
	if r == "unknown" && p.sv.log != nil {
		n := atomic.AddInt64(&p.ex.dumpSeq, 1)
		if n <= 20 {
			os.WriteFile(fmt.Sprintf("%s/unknown-%d.smt2", p.ex.cfg.DumpDir, n), []byte(p.sv.log.String()), 0o644)
		}
	}
	return r
}

// choose picks one of len(guards) options. guards[k]=="" is a free choice;
// otherwise the option is feasible iff pc ∧ guards[k] is satisfiable. If
// exhaustive, the guards are known to cover all cases under pc.
func (p *path) choose(guards []string, exhaustive bool) int {
	pos := len(p.decisions)
	if pos < len(p.prefix) {
		k := int(p.prefix[pos])
		if k >= len(guards) {
			panic(engineError{fmt.Sprintf("replay diverged: decision %d=%d but only %d options", pos, k, len(guards))})
		}
		p.decisions = append(p.decisions, int32(k))
		if guards[k] != "" {
			p.assert(guards[k])
		}
		if p.ex.cfg.Trace {
			r := p.sv.checkSat()
			fmt.Fprintf(os.Stderr, "TRACE decision %d = %d/%d guard=%.200s => pc %s at %s\n", pos, k, len(guards), guards[k], r, p.whereFn())
		}
		return k
	}
	res := p.ex.res
	var feas []int
	solverUsed := false
	// A guard proved unsatisfiable earlier on this path stays unsatisfiable (the path condition only grows).
	known := 0
	for _, g := range guards {
		if g != "" && p.unsatCache[g] {
			known++
		}
	}
	for k, g := range guards {
		if g == "" {
			feas = append(feas, k)
			continue
		}
		solverUsed = true
		if p.unsatCache[g] {
			atomic.AddInt64(&res.CacheHits, 1)
			continue
		}
		if exhaustive && len(feas) == 0 && known == len(guards)-1 {
			// every other option is known infeasible and pc is satisfiable: this one holds
			feas = append(feas, k)
			atomic.AddInt64(&res.CacheHits, 1)
			continue
		}
		if exhaustive && k == len(guards)-1 && len(feas) == 0 {
			// all others infeasible and pc is satisfiable: this one holds
			feas = append(feas, k)
			atomic.AddInt64(&res.SolverDecided, 1)
			continue
		}
		switch p.check(g) {
		case "sat":
			feas = append(feas, k)
			atomic.AddInt64(&res.SolverDecided, 1)
		case "unsat":
			if p.unsatCache == nil {
				p.unsatCache = map[string]bool{}
			}
			p.unsatCache[g] = true
			known++
			n := atomic.AddInt64(&res.UnsatPruned, 1)
			atomic.AddInt64(&res.SolverDecided, 1)
			if ve := p.ex.cfg.VerifyUnsatEvery; ve > 0 && n%int64(ve) == 0 {
				// cross-check a sample of the pruned sides with the two other solvers (fresh processes)
				p.crossCheckUnsat(g)
			}
		default:
			feas = append(feas, k)
			atomic.AddInt64(&res.UnknownKept, 1)
		}
	}
	_ = solverUsed
	if len(feas) == 0 {
		panic(pathStop{reason: "no feasible option (path condition unsatisfiable)", pruned: true})
	}
	if len(feas) > 1 && !p.ex.cfg.Single {
		atomic.AddInt64(&res.Forks, 1)
		base := append([]int32(nil), p.decisions...)
		var items []workItem
		for _, k := range feas[1:] {
			pf := make([]int32, len(base)+1)
			copy(pf, base)
			pf[len(base)] = int32(k)
			items = append(items, workItem{pf})
		}
		p.ex.push(items)
	}
	k := feas[0]
	p.decisions = append(p.decisions, int32(k))
	if guards[k] != "" {
		p.assert(guards[k])
	}
	return k
}

// branch decides a symbolic condition, forking when both sides are feasible.
func (p *path) branch(cond string) bool {
	return p.choose([]string{cond, mkNot(cond)}, true) == 0
}

func (ex *explorer) push(items []workItem) {
	ex.mu.Lock()
	// push in reverse so the first alternative is explored first (DFS order)
	for k := len(items) - 1; k >= 0; k-- {
		ex.stack = append(ex.stack, items[k])
	}
	ex.mu.Unlock()
	ex.cond.Broadcast()
}

func (ex *explorer) pop() (workItem, bool) {
	ex.mu.Lock()
	defer ex.mu.Unlock()
	for {
		if ex.stop {
			return workItem{}, false
		}
		if n := len(ex.stack); n > 0 {
			it := ex.stack[n-1]
			ex.stack = ex.stack[:n-1]
			ex.active++
			return it, true
		}
		if ex.active == 0 {
			ex.cond.Broadcast()
			return workItem{}, false
		}
		ex.cond.Wait()
	}
}

func (ex *explorer) done() {
	ex.mu.Lock()
	ex.active--
	ex.mu.Unlock()
	ex.cond.Broadcast()
}

func (ex *explorer) inconclusive(msg string) {
	ex.mu.Lock()
	if len(ex.res.Inconclusive) < 50 {
		ex.res.Inconclusive = append(ex.res.Inconclusive, msg)
	} else if len(ex.res.Inconclusive) == 50 {
		ex.res.Inconclusive = append(ex.res.Inconclusive, "… more")
	}
	ex.mu.Unlock()
}

func (ex *explorer) addViolation(v Violation) {
	ex.mu.Lock()
	ex.res.ViolationCount[v.ID]++
	if len(ex.res.Violations[v.ID]) < ex.cfg.MaxViolations {
		ex.res.Violations[v.ID] = append(ex.res.Violations[v.ID], v)
	}
	ex.mu.Unlock()
}

// Explore runs the entry function on every feasible path.
func Explore(cfg Config) *Result {
	if cfg.Workers <= 0 {
		cfg.Workers = runtime.NumCPU()
	}
	if cfg.StepBudget == 0 {
		cfg.StepBudget = 5_000_000
	}
	if cfg.PathBudget == 0 {
		cfg.PathBudget = 5_000_000
	}
	if cfg.MaxViolations == 0 {
		cfg.MaxViolations = 3
	}
	if cfg.QueryTimeoutMs == 0 {
		cfg.QueryTimeoutMs = 20000
	}
	if cfg.MaxSamples == 0 {
		cfg.MaxSamples = 40
	}
	res := &Result{
		Violations:     map[string][]Violation{},
		ViolationCount: map[string]int64{},
		Funcs:          map[string]int64{},
		Intrinsics:     map[string]int64{},
		StubsHit:       map[string]int64{},
	}
	ex := &explorer{cfg: cfg, res: res}
	ex.shared = newSharedInfo(&cfg)
	ex.cond = sync.NewCond(&ex.mu)
	ex.stack = []workItem{{cfg.Prefix}}
	t0 := time.Now()
	var wg sync.WaitGroup
	for w := 0; w < cfg.Workers; w++ {
		wg.Add(1)
		go func(w int) {
			defer wg.Done()
			sv, err := newSolver(cfg.Solver, cfg.QueryTimeoutMs)
			if err != nil {
				ex.inconclusive("cannot start solver: " + err.Error())
				ex.mu.Lock()
				ex.stop = true
				ex.mu.Unlock()
				ex.cond.Broadcast()
				return
			}
			defer func() {
				atomic.AddInt64(&res.Queries, sv.queries)
				atomic.AddInt64(&res.SolverNanos, sv.nanos)
				// error answers are counted; each one made the session stale, i.e. it was discarded before its next use
				atomic.AddInt64(&res.SolverErrors, sv.errs)
				sv.close()
			}()
			funcs := map[string]int64{}
			intr := map[string]int64{}
			stubs := map[string]int64{}
			defer func() {
				ex.mu.Lock()
				for k, v := range funcs {
					res.Funcs[k] += v
				}
				for k, v := range intr {
					res.Intrinsics[k] += v
				}
				for k, v := range stubs {
					res.StubsHit[k] += v
				}
				ex.mu.Unlock()
			}()
			for {
				it, ok := ex.pop()
				if !ok {
					return
				}
				func() {
					defer func() {
						if r := recover(); r != nil {
							// the solver process died (or another executor-level failure outside a path's own recovery):
							// the path is inconclusive; continue with a fresh solver session
							ex.inconclusive(fmt.Sprintf("worker failure on prefix %v: %v", it.prefix, r))
							atomic.AddInt64(&res.Queries, sv.queries)
							atomic.AddInt64(&res.SolverNanos, sv.nanos)
							sv.close()
							if nsv, err := newSolver(cfg.Solver, cfg.QueryTimeoutMs); err == nil {
								sv = nsv
							} else {
								ex.mu.Lock()
								ex.stop = true
								ex.mu.Unlock()
							}
						}
					}()
					ex.runPath(sv, it.prefix, funcs, intr, stubs)
				}()
				ex.done()
				n := atomic.AddInt64(&ex.pathsRun, 1)
				if n >= cfg.PathBudget || (!cfg.Deadline.IsZero() && time.Now().After(cfg.Deadline)) {
					ex.mu.Lock()
					if !ex.stop {
						ex.stop = true
						left := len(ex.stack)
						ex.mu.Unlock()
						if n >= cfg.PathBudget {
							ex.inconclusive(fmt.Sprintf("path budget %d hit with %d prefixes unexplored", cfg.PathBudget, left))
						} else {
							ex.inconclusive(fmt.Sprintf("deadline hit after %d paths with %d prefixes unexplored", n, left))
						}
					} else {
						ex.mu.Unlock()
					}
					ex.cond.Broadcast()
				}
			}
		}(w)
	}
	wg.Wait()
	res.Wall = time.Since(t0)
	sort.Strings(res.Inconclusive)
	return res
}

// runPath executes the entry function once, following prefix and then the
// first feasible side of every new choice.
func (ex *explorer) runPath(sv *solver, prefix []int32, funcs, intr, stubs map[string]int64) {
	cfg := ex.cfg
	p := &path{ex: ex, sv: sv, prefix: prefix}
	sv.log = nil
	if cfg.DumpDir != "" {
		sv.log = &strings.Builder{}
	}
	// everything a path asserts lives in scopes above this level; whatever way the path ends (also by an executor error
	// raised between a push and its pop, e.g. while a failing assertion's model was being read), ALL of them are closed,
	// so that nothing leaks into the next path of this worker
	base := sv.depth
	sv.send("(push 1)")
	defer func() {
		for sv.depth > base {
			sv.send("(pop 1)")
		}
	}()
	i := &interpreter{
		prog:    cfg.Prog,
		globals: make(map[*ssa.Global]*value),
		sizes:   &types.StdSizes{WordSize: 8, MaxAlign: 8},
		path:    p,
		cfg:     &ex.cfg,
		shared:  ex.shared,
		funcs:   funcs,
		intr:    intr,
		stubs:   stubs,
	}
	if rt := cfg.Prog.ImportedPackage("runtime"); rt != nil {
		if es := rt.Type("errorString"); es != nil {
			i.runtimeErrorString = es.Object().Type()
		}
	}
	p.whereFn = i.where
	var panicMsg string
	completed := false
	func() {
		defer func() {
			r := recover()
			if r == nil {
				completed = true
				return
			}
			switch r := r.(type) {
			case pathStop:
				if r.pruned {
					atomic.AddInt64(&ex.res.Pruned, 1)
				} else {
					ex.inconclusive(r.reason)
				}
			case engineError:
				ex.inconclusive(fmt.Sprintf("%s [decisions %v]", r.msg, p.decisions))
			case *runtime.TypeAssertionError:
				ex.inconclusive(fmt.Sprintf("executor type confusion: %v [decisions %v] at %s", r, p.decisions, i.where()))
			case targetPanic:
				panicMsg = "panic: " + i.panicString(r.v)
				completed = true
			case runtime.Error:
				panicMsg = "panic: " + r.Error()
				completed = true
			case string:
				panicMsg = "panic: " + r
				completed = true
			default:
				ex.inconclusive(fmt.Sprintf("unexpected executor panic %T: %v", r, r))
			}
		}()
		i.runInits()
		call(i, nil, 0, cfg.Entry, nil)
	}()
	atomic.AddInt64(&ex.res.Steps, p.steps)
	if !completed {
		return
	}
	if panicMsg != "" && !p.expectPan {
		id := "panic"
		v := Violation{ID: id, Kind: "panic", Msg: panicMsg, Decisions: append([]int32(nil), p.decisions...), Where: i.lastWhere}
		if vec, ok := p.model(); ok {
			v.Vector = vec
			v.Observed = p.evalObserved()
		} else {
			ex.inconclusive(fmt.Sprintf("no model for a panicking path: %s at %s [decisions %v]", panicMsg, i.lastWhere, p.decisions))
			return
		}
		v.PC = append([]string(nil), p.pc...)
		ex.addViolation(v)
	}
	// vacuity / soundness guard: the path condition of a completed path must be satisfiable
	if len(p.pc) > 0 {
		p.ensureFresh()
		switch p.sv.checkSat() {
		case "unsat":
			ex.inconclusive(fmt.Sprintf("completed path has an unsatisfiable path condition (executor or solver error) [decisions %v]", p.decisions))
			return
		case "sat":
			atomic.AddInt64(&ex.res.PathsRechecked, 1)
		}
	}
	n := atomic.AddInt64(&ex.res.Completed, 1)
	if cfg.SampleEvery > 0 && len(p.assertFail) == 0 && (n%int64(cfg.SampleEvery) == 1 || cfg.SampleEvery == 1) {
		ex.mu.Lock()
		room := len(ex.res.Samples) < cfg.MaxSamples
		ex.mu.Unlock()
		if room {
			if vec, ok := p.model(); ok {
				obs := p.evalObserved()
				ex.mu.Lock()
				if len(ex.res.Samples) < cfg.MaxSamples {
					ex.res.Samples = append(ex.res.Samples, Sample{
						Decisions: append([]int32(nil), p.decisions...), Vector: vec, Observed: obs,
						Asserts: append([]string(nil), p.assertFail...), Panic: panicMsg})
				}
				ex.mu.Unlock()
			}
		}
	}
}

// model returns a replay vector satisfying the current path condition.
func (p *path) model() ([]NDValue, bool) {
	var names []string
	for _, v := range p.nd {
		if v.term != "" {
			names = append(names, v.term)
		}
	}
	vals := map[string]string{}
	p.modelFromFresh = false
	if len(names) > 0 {
		if p.sv.depth <= 1 {
			p.ensureFresh() // (not inside an assertion's scope: that scope would be lost)
		}
		r := p.sv.checkSat()
		if r == "unsat" {
			p.ex.inconclusive(fmt.Sprintf("path condition became unsatisfiable (executor error) [decisions %v]", p.decisions))
			return nil, false
		}
		if r == "sat" {
			var err error
			vals, err = p.sv.getValues(names)
			if err != nil {
				return nil, false
			}
		} else {
			// incremental session timed out: ask fresh processes for a model
			var ok bool
			vals, ok = p.modelFresh(names)
			if !ok {
				return nil, false
			}
			p.modelFromFresh = true
		}
	}
	p.lastModel = vals
	out := make([]NDValue, 0, len(p.nd))
	for _, v := range p.nd {
		nv := NDValue{Name: v.name, Kind: v.kind}
		switch v.kind {
		case "choice":
			nv.Value = v.value
		case "bool":
			nv.Value = vals[v.term] == "true"
		case "int":
			u, ok := decodeBV(vals[v.term])
			if !ok {
				return nil, false
			}
			nv.Value = int64(u)
		case "str":
			nv.Value = decodeSMTString(vals[v.term])
		}
		out = append(out, nv)
	}
	return out, true
}

// evalObserved renders the observation log under the current model (a
// check-sat must have succeeded just before); symbolic observations are
// evaluated by the solver.
func (p *path) evalObserved() []string {
	out := make([]string, len(p.observed))
	copy(out, p.observed)
	for k := range out {
		o := p.observedSym[k]
		if o.term == "" {
			continue
		}
		if p.modelFromFresh {
			out[k] = o.text + "?"
			continue
		}
		p.sv.send("(get-value (" + o.term + "))")
		r := p.sv.readSexp()
		val := "?"
		if lst, ok := parseSexp(r).([]any); ok && len(lst) == 1 {
			if pair, ok := lst[0].([]any); ok && len(pair) == 2 {
				val = renderModelValue(sexpString(pair[1]), o.kind)
			}
		}
		out[k] = o.text + val
	}
	return out
}

// pickValue returns a value the term can take under the path condition.
func (p *path) pickValue(t string, w int) (uint64, bool) {
	if p.sv.checkSat() != "sat" {
		return 0, false
	}
	p.sv.send("(get-value (" + t + "))")
	r := p.sv.readSexp()
	if lst, ok := parseSexp(r).([]any); ok && len(lst) == 1 {
		if pair, ok := lst[0].([]any); ok && len(pair) == 2 {
			return decodeBV(sexpString(pair[1]))
		}
	}
	return 0, false
}

// recorded returns a value that is part of the decision stream: computed by f
// on the discovering path, read back from the prefix on replays.
func (p *path) recorded(f func() (int32, bool)) (int32, bool) {
	pos := len(p.decisions)
	if pos < len(p.prefix) {
		v := p.prefix[pos]
		p.decisions = append(p.decisions, v)
		return v, true
	}
	v, ok := f()
	if !ok {
		return 0, false
	}
	p.decisions = append(p.decisions, v)
	return v, true
}

func renderModelValue(lit string, k types.BasicKind) string {
	if lit == "true" || lit == "false" {
		return lit
	}
	if strings.HasPrefix(lit, "\"") {
		return fmt.Sprintf("%q", decodeSMTString(lit))
	}
	if u, ok := decodeBV(lit); ok {
		if isSignedKind(k) {
			switch bvWidth(k) {
			case 8:
				return fmt.Sprintf("%d", int8(u))
			case 16:
				return fmt.Sprintf("%d", int16(u))
			case 32:
				return fmt.Sprintf("%d", int32(u))
			}
			return fmt.Sprintf("%d", int64(u))
		}
		return fmt.Sprintf("%d", u)
	}
	return lit
}
