package accumulation

// C01 / C02 / C07 at source level, through the REAL pipeline (zz_verif_pipe.go): a closed one-package
// program of the core pointer fragment is generated, analysed by the real front end and the real NilAway
// stages, and the diagnostics are compared with the program's own semantics.
//
// Program family (sizes are parameters):
//   var g *int                                   package-level pointer, nil at start
//   func callee(a *int) *int { one of 7 bodies } identity, nil, fresh, dereferencing, repairing, flag-dependent, global-reading
//   func Entry() { var x, y *int; S1; ...; Sn }  n = STMTS
//   S ::= x = nil | x = new(int) | x = y | y = x | x = g | g = x | _ = *x | _ = *y | _ = *g
//       | if x != nil { _ = *x } | if x == nil { return } | if x == nil { x = new(int) } | x = callee(y)
//       | if flagK { S0 } | if flagK { S0 } else { S0 }           S0 = the first nine forms
//
// Oracle: the semantics of Entry() from the initial state, built alongside the text as SMT terms over the
// opaque flags ("x is nil", "y is nil", "g is nil", "still running", "a nil dereference happened").
//   P01.A1 (C01)  for all flag values: some dereference of Entry()'s execution hits nil  =>  >= 1 diagnostic
//   P01.A2 (C02)  a program whose only dereferences are nil-checked ones gets no diagnostic
//   P01.A3 (C01)  exactly one unchecked dereference in the program: if it can hit nil, a diagnostic is reported
//                 on its line
//   P01.A4 (C07)  nothing internal fails
//   P01.A5 (C02)  every diagnostic sits on a line that holds an unchecked dereference (never on a nil-checked one)

//verif:use zz_verif_pipe.go

import (
	"strconv"
	"strings"
)

type p01Gen struct {
	b          strings.Builder
	line       int
	nflags     int
	x, y, g    bool // "is nil"
	live       bool // Entry has not returned yet
	panics     bool // some dereference so far hit nil
	unchecked  []int
	uncheckedP []bool // per unchecked dereference: it hits nil
	calleeKind int    // -1 until the first call is generated
	calleeFlag bool
	simple     int
	callees    int    // number of callee shapes enabled (7: one parameter; 10: plus three two-parameter shapes)
	t          bool   // P01L: "t is nil"
	usesVal    bool   // P01L: t.val() is called somewhere
	valHit     bool   // P01L: some call of t.val() had a nil receiver
	class      string // suffix of the assertion ids for an input class with a recorded known finding
	// P10: explicit annotations (0 none, 1 nilable, 2 nonnil) on the callee's parameter, its result and the package-level pointer
	annA, annR, annG int
	annSpelling      int // 0: names, 1: `param 0`
	gDeclLine        int
	flowIn           []int // lines where nil may flow into a nonnil-annotated site (a diagnostic may sit there)
	calleeFirst      int   // first and last line of the callee (for nonnil(result 0): the return statements are flow-in points)
	calleeLast       int
}

// gval is what a read of the package-level pointer yields: its run-time value. (For a nilable-annotated variable the
// value at function entry is arbitrary - see Harness_P10 - and a local store is then tracked like any other.)
func (g *p01Gen) gval() bool {
	return g.g
}

func (g *p01Gen) emit(s string) int {
	g.b.WriteString(s + "\n")
	g.line++
	return g.line
}

func (g *p01Gen) flag() (string, bool) {
	k := g.nflags
	g.nflags++
	return "flag" + strconv.Itoa(k), ndBool("flag")
}

func (g *p01Gen) deref(line int, isNil bool, cond bool) {
	hit := ndAnd(ndAnd(g.live, cond), isNil)
	g.panics = ndOr(g.panics, hit)
	g.unchecked = append(g.unchecked, line)
	g.uncheckedP = append(g.uncheckedP, hit)
}

// simpleStmt emits one of the nine straight-line forms at the given indentation, executed under cond.
func (g *p01Gen) simpleStmt(tag, ind string, cond bool) {
	switch ndChoice(tag, g.simple) {
	case 0:
		g.emit(ind + "x = nil")
		g.x = ndIteBool(cond, true, g.x)
	case 1:
		g.emit(ind + "x = new(int)")
		g.x = ndIteBool(cond, false, g.x)
	case 2:
		g.deref(g.emit(ind+"_ = *x"), g.x, cond)
	case 3:
		g.emit(ind + "x = y")
		g.x = ndIteBool(cond, g.y, g.x)
	case 4:
		g.emit(ind + "y = x")
		g.y = ndIteBool(cond, g.x, g.y)
	case 5:
		g.emit(ind + "x = g")
		g.x = ndIteBool(cond, g.gval(), g.x)
	case 6:
		l := g.emit(ind + "g = x")
		if g.annG == 2 {
			// nil stored into a nonnil-annotated variable
			g.panics = ndOr(g.panics, ndAnd(ndAnd(g.live, cond), g.x))
			g.flowIn = append(g.flowIn, l)
		}
		g.g = ndIteBool(cond, g.x, g.g)
	case 7:
		g.deref(g.emit(ind+"_ = *y"), g.y, cond)
	case 8:
		g.deref(g.emit(ind+"_ = *g"), g.gval(), cond)
	case 9: // parallel assignment: swap
		g.emit(ind + "x, y = y, x")
		g.x, g.y = ndIteBool(cond, g.y, g.x), ndIteBool(cond, g.x, g.y)
	default: // parallel assignment: the right-hand sides are evaluated before any store
		g.emit(ind + "x, y = nil, x")
		g.x, g.y = ndIteBool(cond, true, g.x), ndIteBool(cond, g.x, g.y)
	}
}

// call emits `x = callee(y)` (choosing the callee at the first call) and applies its semantics.
func (g *p01Gen) call() {
	if g.calleeKind < 0 {
		if g.callees == 0 {
			g.callees = 7
		}
		g.calleeKind = ndChoice("callee", g.callees)
		if g.calleeKind == 5 || g.calleeKind == 10 {
			g.calleeFlag = ndBool("calleeflag")
		}
	}
	callText := "\tx = callee(y)"
	if g.calleeKind >= 7 && g.calleeKind <= 9 {
		callText = "\tx = callee(x, y)" // two parameters
	}
	if g.calleeKind >= 11 {
		callText = "\tx, y = callee(y)" // two results, neither an error nor an ok flag
	}
	callLine := g.emit(callText)
	arg := g.y
	switch g.annA {
	case 1:
		arg = ndBool("param_annotated_nilable") // inside the callee the parameter is a nil source of its own
	case 2:
		g.panics = ndOr(g.panics, ndAnd(g.live, g.y)) // nil passed to a nonnil-annotated parameter
		g.flowIn = append(g.flowIn, callLine)
	}
	var ret bool
	switch g.calleeKind {
	case 0:
		ret = arg
	case 1:
		ret = true
	case 2, 4:
		ret = false
	case 3:
		g.panics = ndOr(g.panics, ndAnd(g.live, arg))
		ret = arg
	case 5:
		ret = ndIteBool(g.calleeFlag, true, arg)
	case 6:
		ret = g.gval()
	case 10: // recursive: callee(a) returns callee(nil) behind an opaque flag, else a
		ret = ndIteBool(g.calleeFlag, true, arg)
	case 11: // callee(a) returns (a, nil)
		ret = arg
		g.y = true
	case 12: // callee(a) returns (nil, a)
		ret = true
		g.y = arg
	case 7: // callee(a, b) returns b
		ret = g.y
	case 8: // callee(a, b) dereferences a, returns b
		g.panics = ndOr(g.panics, ndAnd(g.live, g.x))
		ret = g.y
	default: // callee(a, b) dereferences b, returns a
		g.panics = ndOr(g.panics, ndAnd(g.live, g.y))
		ret = g.x
	}
	switch g.annR {
	case 1:
		ret = ndBool("result_annotated_nilable") // the annotation makes every call a nil source
	case 2:
		g.panics = ndOr(g.panics, ndAnd(g.live, ret)) // nil returned from a nonnil-annotated result
	}
	g.x = ret
}

func (g *p01Gen) stmt(compound int) {
	kind := ndChoice("stmt", 1+compound)
	switch kind {
	case 0:
		g.simpleStmt("simple", "\t", true)
	case 1:
		g.emit("\tif x != nil {")
		g.emit("\t\t_ = *x")
		g.emit("\t}")
	case 2:
		g.emit("\tif x == nil {")
		g.emit("\t\treturn")
		g.emit("\t}")
		g.live = ndAnd(g.live, ndNot(g.x))
	case 3:
		g.emit("\tif x == nil {")
		g.emit("\t\tx = new(int)")
		g.emit("\t}")
		g.x = false
	case 4:
		g.call()
	case 5:
		f, v := g.flag()
		g.emit("\tif " + f + " {")
		g.simpleStmt("then", "\t\t", v)
		g.emit("\t}")
	default:
		f, v := g.flag()
		g.emit("\tif " + f + " {")
		g.simpleStmt("then", "\t\t", v)
		g.emit("\t} else {")
		g.simpleStmt("else", "\t\t", ndNot(v))
		g.emit("\t}")
	}
}

// emitCallee prints the callee chosen at the first call and returns the line of its unchecked dereference (0 if none).
func (g *p01Gen) emitCallee() int {
	calleeDeref := 0
	g.emit("")
	var anns []string
	pname := "a"
	if g.annSpelling == 1 {
		pname = "param 0"
	}
	switch g.annA {
	case 1:
		anns = append(anns, "nilable("+pname+")")
	case 2:
		anns = append(anns, "nonnil("+pname+")")
	}
	switch g.annR {
	case 1:
		anns = append(anns, "nilable(result 0)")
	case 2:
		anns = append(anns, "nonnil(result 0)")
	}
	if len(anns) > 0 {
		g.emit("// " + strings.Join(anns, ", "))
	}
	if g.calleeKind >= 11 {
		g.calleeFirst = g.emit("func callee(a *int) (*int, *int) {")
		if g.calleeKind == 11 {
			g.emit("\treturn a, nil")
		} else {
			g.emit("\treturn nil, a")
		}
		g.calleeLast = g.emit("}")
		return calleeDeref
	}
	if g.calleeKind == 10 {
		g.calleeFirst = g.emit("func callee(a *int) *int {")
		g.emit("\tif calleeflag {")
		g.emit("\t\treturn callee(nil)")
		g.emit("\t}")
		g.emit("\treturn a")
		g.calleeLast = g.emit("}")
		return calleeDeref
	}
	if g.calleeKind >= 7 {
		g.calleeFirst = g.emit("func callee(a, b *int) *int {")
		switch g.calleeKind {
		case 7:
			g.emit("\treturn b")
		case 8:
			calleeDeref = g.emit("\t_ = *a")
			g.emit("\treturn b")
		default:
			calleeDeref = g.emit("\t_ = *b")
			g.emit("\treturn a")
		}
		g.calleeLast = g.emit("}")
		return calleeDeref
	}
	g.calleeFirst = g.emit("func callee(a *int) *int {")
	switch g.calleeKind {
	case 0:
		g.emit("\treturn a")
	case 1:
		g.emit("\treturn nil")
	case 2:
		g.emit("\treturn new(int)")
	case 3:
		calleeDeref = g.emit("\t_ = *a")
		g.emit("\treturn a")
	case 4:
		g.emit("\tif a == nil {")
		g.emit("\t\treturn new(int)")
		g.emit("\t}")
		g.emit("\treturn a")
	case 5:
		g.emit("\tif calleeflag {")
		g.emit("\t\treturn nil")
		g.emit("\t}")
		g.emit("\treturn a")
	default:
		g.emit("\treturn g")
	}
	g.calleeLast = g.emit("}")
	return calleeDeref
}

func Harness_P01() {
	n := ndParam("STMTS", 2)
	compound := ndParam("COMPOUND", 5) // how many of the compound forms are enabled (0..6)
	g := &p01Gen{x: true, y: true, g: true, live: true, calleeKind: -1, simple: ndParam("SIMPLE", 9), callees: ndParam("CALLEES", 7)}
	g.emit("package p")
	g.emit("")
	g.emit("var flag0, flag1, flag2, flag3, calleeflag, gflag bool")
	// how the package-level pointer is declared and initialised (GINIT forms; the default is the first only)
	ginit := ndParam("GFORM", -1)
	if ginit < 0 {
		ginit = ndChoice("global_init", ndParam("GINIT", 1))
	}
	if ginit == 5 {
		// NilAway drops the declaration trigger as soon as init() contains ANY assignment to the variable, even a
		// conditional one (assertion/global: hasGlobalVarAssignInInitFunc): a known false negative, see known_findings.json
		g.class = "[global_assigned_only_conditionally_in_init]"
	}
	switch ginit {
	case 0, 4, 5:
		g.emit("var g *int")
	case 1:
		g.emit("var g *int = nil")
	case 2:
		g.emit("var g *int = (nil)")
	default:
		g.emit("var g = new(int)")
	}
	switch ginit {
	case 3, 4:
		g.g = false
	case 5:
		g.g = ndNot(ndBool("gflag"))
	}
	g.emit("")
	g.emit("func Entry() {")
	g.emit("\tvar x, y *int")
	if ndParam("BOOLVAL", 0) == 1 {
		// a nil check of x inside a short-circuit expression that is used as a VALUE, not as a branch condition: it
		// says nothing about what follows (NilAway used to apply the check's non-nil fact to everything downstream)
		f, _ := g.flag()
		if ndChoice("boolean_value", 2) == 0 {
			g.emit("\tb := " + f + " && x != nil")
		} else {
			g.emit("\tb := " + f + " || x == nil")
		}
		g.emit("\t_ = b")
	}
	for k := 0; k < n; k++ {
		g.stmt(compound)
	}
	g.emit("\t_, _ = x, y")
	g.emit("}")
	calleeDeref := 0
	if g.calleeKind >= 0 {
		calleeDeref = g.emitCallee()
	}
	switch ginit {
	case 4:
		g.emit("")
		g.emit("func init() {")
		g.emit("\tg = new(int)")
		g.emit("}")
	case 5:
		g.emit("")
		g.emit("func init() {")
		g.emit("\tif gflag {")
		g.emit("\t\tg = new(int)")
		g.emit("\t}")
		g.emit("}")
	}
	src := g.b.String()
	ndObserveStr("source", src)

	g.judge(src, calleeDeref, 0)
}

// judge runs the pipeline on the program and states the obligations P01.A1-A4.
func (g *p01Gen) judge(src string, calleeDeref, valLine int) {
	nonnilAnn := g.annA == 2 || g.annR == 2 || g.annG == 2
	r := pipeAnalyse(src)
	ndObserveInt("diagnostics", len(r.diags))
	internal := r.panicked != "" || len(r.funcErrs) > 0
	for _, d := range r.diags {
		ndObserveStr("diag", d.Message)
		if strings.Contains(d.Message, "INTERNAL") {
			internal = true
		}
	}
	ndAssert("P01.A4.no_internal_failure"+g.class, !internal)
	reported := len(r.diags) > 0
	ndAssert("P01.A1.a_reachable_nil_dereference_is_reported"+g.class, ndImplies(g.panics, reported))
	nUnchecked := len(g.unchecked)
	if calleeDeref > 0 {
		nUnchecked++
	}
	if g.usesVal {
		nUnchecked++
	}
	if nUnchecked == 0 && !nonnilAnn {
		// (C10: this includes programs whose sites are annotated nilable - the annotation alone adds no diagnostic)
		ndAssert("P01.A2.a_program_with_only_nil_checked_dereferences_is_not_reported"+g.class, !reported)
	}
	// C02 per line: a diagnostic may only sit on a line that holds an unchecked dereference
	allowed := map[int]bool{}
	for _, l := range g.unchecked {
		allowed[l] = true
	}
	if calleeDeref > 0 {
		allowed[calleeDeref] = true
	}
	if valLine > 0 {
		allowed[valLine] = true
	}
	for _, l := range g.flowIn {
		allowed[l] = true
	}
	if g.annR == 2 || g.annA != 0 {
		// nonnil(result 0): the callee's return statements are flow-in points; nonnil(a): the conflict is reported at the
		// annotated parameter; nilable(a): every use of a in the callee is a possible report
		for l := g.calleeFirst; l <= g.calleeLast; l++ {
			allowed[l] = true
		}
	}
	if g.annG == 2 {
		allowed[g.gDeclLine] = true
	}
	onlyThere := true
	for l := range r.lines() {
		if !allowed[l] {
			onlyThere = false
			ndObserveInt("diagnostic_on_unexpected_line", l)
		}
	}
	ndAssert("P01.A5.no_diagnostic_on_a_line_without_an_unchecked_dereference"+g.class, onlyThere)
	if nUnchecked == 1 && !nonnilAnn {
		lines := r.lines()
		if calleeDeref > 0 {
			ndAssert("P01.A3.the_only_unchecked_dereference_is_reported_at_its_line"+g.class, ndImplies(g.panics, lines[calleeDeref]))
		} else if g.usesVal {
			ndAssert("P01.A3.the_only_unchecked_dereference_is_reported_at_its_line"+g.class, ndImplies(g.valHit, lines[valLine]))
		} else {
			ndAssert("P01.A3.the_only_unchecked_dereference_is_reported_at_its_line"+g.class, ndImplies(g.uncheckedP[0], lines[g.unchecked[0]]))
		}
	}
}
