"""Claims text per property and the not-applicable list (kept current with registry.py)."""

NOTES = ("All checks are bounded symbolic execution of the real functions (from go/ssa of /repo's working tree) with an SMT solver; "
         "bounds and what lies outside them are in each evidence file (coverage.bounds / coverage.outside_bounds) and in DESIGN.md section 4. "
         "Exit 2 = inconclusive (bound hit, solver unknown, unsupported construct, translator mismatch) and never happens on the unchanged tree.")

PIPE_NOTE = ("Source-level runs execute the REAL go/parser, go/types, go/cfg and the REAL NilAway stages (annotation, global, nolint, BackpropAcrossFunc, accumulation.run with both engines) from SSA, nothing stubbed; the driver, function.run's goroutine fan-out and the affiliation/anonymous-function/contract/struct-field analyzers are not part of it. Programs are enumerated from a stated grammar; the solver decides the program's run-time behaviour over all values of the opaque conditions. ")

CLAIMS = {
    "C18": dict(
        text="For every two-package program of the C01 grammar the real pipeline reports the same positions and the same set of message texts when the module is relocated (and the tool started at its new root) and "
             "when the tool is started in either package's directory - so every cross-package flow found in one layout is found in the others.",
        note="Partial: three layouts, single process (dependency and importer see the same working directory), working directory injected through tokenhelper's captured value; RelToCwd itself is decided under C14. "
             "Different working directories per package, symlinks and sandboxed relative names are outside. " + PIPE_NOTE,
    ),
    "C01": dict(
        text="For every closed one-package program of the stated grammar of the core pointer fragment (2-3 statements over two pointer locals, a package-level pointer, nil/new/copies, dereferences, nil-check guards, "
             "early returns, opaque if / if-else, a callee in seven shapes) the real pipeline is run and the solver shows, over ALL values of the opaque conditions: if some execution of the entry function "
             "dereferences nil then at least one diagnostic is reported; if the program has exactly one unchecked dereference and it can hit nil, a diagnostic is on its line; if every dereference is nil-checked, there is no diagnostic.",
        note="Partial and bounded: single package, no loops/switches/methods/struct fields (see evidence.coverage.outside_bounds); the cross-package half of the statement is decided at engine level by C03/C05/C06. " + PIPE_NOTE,
    ),
    "C19": dict(
        text="For every token value and ALL operand pairs (int64, uint64, bounded ASCII strings) the solver shows a op b == b converse(op) a == !(a inverse(op) b), "
             "both maps are involutions, commute, and panic exactly outside the six comparisons. The integer domains are complete (no bound); strings are length-bounded.",
        note="Trusted: symx executor, z3, go/token.Token.String executed from SSA after running go/token's initialiser. Floats are outside. "
             "Sampled paths are re-run natively (go test -overlay) and must observe the same values.",
    ),
    "C12": dict(
        text="Within the bounds (<=3 include x <=3 exclude symbolic prefixes, symbolic package path, symbolic comment texts/positions) the solver shows that IsPkgInScope "
             "equals (some include prefix matches) and not (some exclude prefix matches), that config.run turns an empty -include-pkgs into 'everything', and that IsFileInScope "
             "looks only at comment groups before the package clause with the templ marker overriding exclude docstrings.",
        note="Partial: the clause 'an out-of-scope package publishes no facts' is checked per analyzer entry (K3) where registered; per-file filtering inside whole-package AST walks is outside. "
             "Stubs: types.NewPackage/(*types.Package).Path (symbolic path), (*ast.CommentGroup).Text (single-line contract, validated natively on samples). Source level (P12): two-package programs of the C01 grammar through the real pipeline with -exclude-pkgs naming either package: no diagnostic and no fact from the excluded one. " + PIPE_NOTE + "",
    ),
    "C05": dict(
        text="For every sequence of <=N constraints (sources, sinks, flows, annotations, controlled triggers) over S symbolic sites, in every observation order, the solver shows: "
             "a conflict is recorded iff a nil source reaches a non-nil sink in the constraint graph; every recorded explanation is a path of observed constraints meeting at one site; "
             "without a conflict each site's verdict equals reachability. Site identities stay symbolic, so the verdict covers all site assignments within the bound, not samples.",
        note="Bounded (see evidence.coverage.bounds). L2 replaces primitivizer.site/fullTrigger by a contract stub under symx; the native replay runs the real ones on sampled paths and on every counterexample. "
             "Found and fixed (fix: commit in /repo): controlled triggers with a pre-determined controller were never activated.",
    ),
    "C11": dict(
        text="For <=N conflicts with symbolic report lines/offsets and <=R nolint ranges with symbolic bounds, both grouping values and both exclude-test-files values, the solver shows that a "
             "conflict is reported (as a diagnostic or in exactly one 'other place(s)' list of a diagnostic with the same nil source) iff its (file, line) lies in no nolint range.",
        note="Partial: comment attachment (ast.NewCommentMap) and the comment-text recogniser are outside; toPos is stubbed under symx and real in the native replay. "
             "Found and fixed (fix: commit in /repo): suppression was applied after grouping, so a suppressed group leader hid its unsuppressed members. Source level (P13): a //nolint:nilaway comment on a dereference line of a C01-grammar program removes exactly the reports on that line (real comment map and NoLint analyzer), grouping off and on. " + PIPE_NOTE,
    ),
    "C13": dict(
        text="For <=N conflicts with symbolic offsets (every sort order) the solver-explored paths show that grouping partitions the ungrouped report: every location is a leader or appears in exactly one "
             "'other place(s)' list of a leader with the same nil source, the printed count equals the list length, and nothing new appears.",
        note="Grouping sentence: solver-decided over symbolic offsets. Pretty-printing sentence: the real PrettyPrintErrorMessage and regexp engine are executed from SSA on an enumerated family of message shapes "
             "(no symbolic scalars: regular-expression matching over symbolic strings is out of solver reach) and stripping colours and prefix must give back the plain message. "
             "Found and fixed (fix: commit): quoted spans lost their quotes, so `m[\"k\"]` was shown as `m[k]` and grouped positions lost theirs. Source level (P13): for every C01-grammar program the grouped report covers exactly the ungrouped locations (real messages parsed). " + PIPE_NOTE,
    ),
    "C06": dict(
        text="Within the bounds the solver shows: an importer fed the exported fact (through the codec) reaches the same conflict/no-conflict answer and the same verdicts on visible sites as the "
             "whole-program reference over both packages' constraints; the increment repeats no verdict a dependency published; decoding yields the same content; and (export step alone, deeper bound) "
             "every verdict on an exported site and every flow between two exported undetermined sites - through any number of unexported sites - is in the fact, and the fact invents nothing.",
        note="Engine level only; the gob+s2 byte codec is modelled structurally under symx and executed for real in the native replay of sampled paths and counterexamples. Sites and exported flags symbolic, kinds concrete.",
    ),
    "C03": dict(
        text="Within the bounds the solver shows that analysing a chain A<-B<-C and a diamond A<-{B,C}<-D package by package (one engine per package, facts through the codec, dependency facts handed "
             "over in every order) reports a conflict iff the whole-program reference over the union of all constraints does, and the last package's verdicts on visible sites equal whole-program reachability.",
        note="Engine level only: real drivers, serialisation bytes, contract/affiliation/nolint facts and position re-keying are outside (see evidence.coverage.outside_bounds).",
    ),
    "C10": dict(
        text="The solver shows for ALL flag values that an explicitly set annotation value is never changed by type defaults or later make* calls, that defaults never mark a site as annotated, "
             "that Range replays exactly the explicit flags with their values, and (engine, bounded) that a site annotated first keeps exactly the annotated verdict with the annotation as its "
             "explanation under every following constraint sequence, contradictions becoming conflicts.",
        note="Partial: the doc-comment grammar (regexp) and the lookup of names in declarations are outside. Type-default predicates are symbolic Booleans under symx, real types natively. Source level (P10): programs of the C01 grammar with one nilable/nonnil doc annotation on the callee's parameter, its result or the package-level pointer, read by the real annotation parser; a nilable site is an arbitrary value, nil flowing into a nonnil site is an event: 'event possible => reported', 'no unchecked dereference and no nonnil annotation => clean'. " + PIPE_NOTE,
    ),
    "C04": dict(
        text="For every iteration order of the Go maps ranged over inside ObservedMap.Range/ObserveAnnotations and activateControlledTriggers, and for both arrival orders of two dependency facts in "
             "ObserveUpstream, the insertion-ordered inferred map (which determines the exported fact's bytes) is identical; scalar values are symbolic. Map order is an explicit choice point of the executor, "
             "so 'every order' is explored, not sampled.",
        note="Partial: goroutine scheduling (C16) and map iteration inside AST-walking code are outside; the gob encoder is trusted. Found and fixed (two fix: commits): annotation replay order and "
             "controlled-trigger activation order were map-iteration dependent.",
    ),
    "C15": dict(
        text="For every pair of function-based key kinds (and variable-based kinds) over one declaring object, with symbolic identifier names, indices and call-site locations, the solver shows "
             "that equal site identities imply the same key and depth (and conversely); and that an importer re-keys a dependency's published object to exactly the recorded identity for every "
             "local position its loader may report.",
        note="Bounded string lengths and index ranges (see evidence). toPosition/objectPath are contract stubs under symx and real in the native replay.",
    ),
    "C02": dict(
        text="For every guard condition up to the depth bound and ALL valuations of its atoms the solver shows: the preprocessed CFG reaches the true branch iff the original condition holds; every "
             "non-nil fact attributed to an edge is true on that edge; every leaf condition left in the CFG is canonical (`v == nil` or an opaque atom) and each canonical nil test is recognised by "
             "AddNilCheck on exactly its non-nil edge.",
        note="Kernel level: recognition and branch attribution (AddProduction is a recorder under symx; no native re-run for those runs). Source level (P01.A2): every program of the C01 grammar whose dereferences "
             "are all nil-checked - direct guards, early-return guards, repairs, across an opaque if, loops, switch-on-nil - gets no diagnostic from the real pipeline, and in EVERY program no diagnostic sits on a line without an unchecked dereference (P01.A5). " + PIPE_NOTE,
    ),
    "C17": dict(
        text="On every explored path the driver-shared CFG (blocks, Nodes/Succs backing arrays) and AST are byte-for-byte unchanged after preprocess.CFG + blocksAndPreprocessingFromCFG + AddNilCheck, "
             "the result aliases none of them, and the ctrlflow CFG of a templ component's function literal is unchanged by the inlining.",
        note="Partial: the CFG-preprocessing kernel only (the one place a source scan found in-place writes). Found and fixed (fix: commit): inlineTemplComponentFuncLit wrote into the shared literal CFG; "
             "confirmed natively by an analyzer sharing the pass (TestVerifC17TemplProbe).",
    ),
    "C09": dict(
        text="Over all generated interface shapes (embedding, method order, parameters), both event orders and local/upstream first events, a conversion to a different interface is never skipped by the "
             "(interface, implementation) cache and produces one result trigger per result and one parameter trigger per parameter of every method of its method set; the same pair is analysed once.",
        note="Partial: the pair cache only. No symbolic scalars in this kernel (shape enumeration); type-checker API stubbed by contract under symx and real in the native replay. "
             "Found and fixed (fix: commit): the cache key of an interface was derived from its first method's declaring type, so an interface embedding an already-seen one was skipped. Source level (P09): 2176 interface programs (two implementations, 17 conversion shapes, single package and split; eight conversion sites NilAway did not recognise were found and fixed) through the real pipeline with the real affiliation analyzer; dispatch evaluated over the opaque flag. " + PIPE_NOTE + "",
    ),
    "C08": dict(
        text="For every assignment of producer nilabilities (symbolic) to <=N triggers over two return statements the solver shows that FilterTriggersForErrorReturn drops value-result triggers iff the "
             "statement's error is definitely non-nil, drops the error trigger iff the error may be nil, rewrites kept consumers as the convention says and touches nothing else; and ObservePackage reports "
             "the nil value returned with a possibly-nil error through a contracted callee in all 720 trigger orders, whichever inference round incorporates the value result.",
        note="Kernel level: package-level filtering. Source level (P08 / P08_Ok): for all 2496 programs of a (value, error) callee x caller family and all 672 of the (value, ok) form (two return statements, explicit or named results with bare returns, forwarding - pure or next to a return of the forwarder's own -, caller forms incl. overwritten error/ok variables and "
             "sentinel comparisons) the real pipeline reports whenever the solver finds an execution that dereferences a nil result, and is silent for a convention-respecting callee with a proper check. "
             "Non-constant ok operands are outside. Found and fixed (two fix: commits): controlled triggers were forgotten between the two inference rounds; a bare return of named results in an ok-returning function was left out of the always-safe tracking (false negative). " + PIPE_NOTE,
    ),
    "C07": dict(
        text="For every failure behaviour of a wrapped sub-analyzer and of the top-level analyzer (all panic kinds, errors, missing or ill-typed results) and all analyzer names / messages (symbolic), "
             "no panic escapes: it becomes Result.Err (resp. one diagnostic at a valid position) carrying the INTERNAL PANIC prefix and the panic value; returned errors are wrapped, not lost.",
        note="Containment clause at kernel level; totality only for a stated family: each of 75 statement templates (thorough: all 5625 ordered pairs) and every program of the C01 grammar is analysed by the real pipeline "
             "without panic, backpropagation error or INTERNAL diagnostic. P07 is template enumeration executed by symx (no symbolic scalars). Found and fixed (four fix: commits): function literal as switch tag, "
             "conversion on the left of an index assignment, parenthesised multi-value call argument, negated case expression of a tagged switch. Totality for every package is outside. " + PIPE_NOTE,
    ),
    "C14": dict(
        text="For explanation chains up to length 3 with symbolic positions the recorded conflict has every flow step and its reported position is the last step of the non-nil flow; and for every "
             "line/column within the bound toPos yields a valid token.Pos that the file set maps back to the same file and line, for real files, fake archive files (padded on demand) and files the set did not know.",
        note="Partial: report position and position mapping only; existence of files on disk, drivers and path printing are environment. Executes the real go/token file-set code. Source level (P14): for every two-package program of the C01 grammar each diagnostic of the real pipeline has a valid position on an existing line, a non-empty flow whose positioned steps all exist, and its last positioned step is the reported position. " + PIPE_NOTE + "",
    ),
    "C20": dict(
        text="First sentence, within a grammar bound: for every generated one-parameter one-result function (real parser, type checker and SSA builder executed by the symbolic executor) an inferred nonnil->nonnil contract "
             "is shown true for ALL valuations of the nil-ness of x and of the opaque conditions by one solver query. Second sentence (a possibly-nil argument of a contracted function keeps the call result possibly nil): within the bounds the solver shows that a controlled trigger is "
             "active exactly when its controller (the call-site argument site) is nilable - whether it became nilable by a flow, by an annotation before registration, or only in the second inference round - in every order.",
        note="K1 is bounded by its function grammar (no loops, calls or aggregates). The call-site bookkeeping in the assertion tree (which calls get duplicated triggers) is outside. "
             "Found and fixed (two fix: commits): pre-determined controllers and controllers determined in the second round never activated their triggers. Source level (P20): 120 callee x argument x use programs through the real pipeline with real SSA, real inferContracts and real trigger duplication. " + PIPE_NOTE + "",
    ),
}

# reasons for every property not (yet) claimed
NOT_APPLICABLE = {
    "C16": "The quantifier is goroutine interleavings over the whole analysis heap; symx has no thread model and no installed solver-based engine explores Go schedules.",
}
for _p in []:
    NOT_APPLICABLE.setdefault(_p, "kernel check not yet registered (in progress; see DESIGN.md section 4)")
