// Copyright 2013 The Go Authors. All rights reserved.
// Use of this source code is governed by a BSD-style
// license that can be found in the LICENSE file.

// Package ssa/interp defines an interpreter for the SSA
// representation of Go programs.
//
// This interpreter is provided as an adjunct for testing the SSA
// construction algorithm.  Its purpose is to provide a minimal
// metacircular implementation of the dynamic semantics of each SSA
// instruction.  It is not, and will never be, a production-quality Go
// interpreter.
//
// The following is a partial list of Go features that are currently
// unsupported or incomplete in the interpreter.
//
// * Unsafe operations, including all uses of unsafe.Pointer, are
// impossible to support given the "boxed" value representation we
// have chosen.
//
// * The reflect package is only partially implemented.
//
// * The "testing" package is no longer supported because it
// depends on low-level details that change too often.
//
// * "sync/atomic" operations are not atomic due to the "boxed" value
// representation: it is not possible to read, modify and write an
// interface value atomically. As a consequence, Mutexes are currently
// broken.
//
// * recover is only partially implemented.  Also, the interpreter
// makes no attempt to distinguish target panics from interpreter
// crashes.
//
// * the sizes of the int, uint and uintptr types in the target
// program are assumed to be the same as those of the interpreter
// itself.
//
// * all values occupy space, even those of types defined by the spec
// to have zero size, e.g. struct{}.  This can cause asymptotic
// performance degradation.
//
// * os.Exit is implemented using panic, causing deferred functions to
// run.
// This copy is modified for symx (/verif): symbolic scalars, forking, ordered maps,
// intrinsics; see /verif/DESIGN.md section 2.
package interp

import (
	"fmt"
	"go/token"
	"go/types"
	"os"
	"regexp"
	"runtime"
	"slices"
	"strings"

	"golang.org/x/tools/go/ssa"
)

type continuation int

const (
	kNext continuation = iota
	kReturn
	kJump
)

// State of one path execution.
type interpreter struct {
	ptrIDs             map[*value]uint64      // maphash.Comparable: pointers numbered by first use
	prog               *ssa.Program           // the SSA program
	globals            map[*ssa.Global]*value // addresses of global variables, materialised lazily
	written            map[*ssa.Global]bool   // globals stored to on this path
	runtimeErrorString types.Type             // the runtime.errorString type
	sizes              types.Sizes            // the effective type-sizing function
	path               *path
	cfg                *Config
	shared             *sharedInfo
	funcs, intr, stubs map[string]int64
	lastWhere          string
	cur                *frame
	depth              int
	inInit             bool
	onceDone           map[*value]bool
	builders           map[*value]*[]piece
}

type deferred struct {
	fn    value
	args  []value
	instr *ssa.Defer
	tail  *deferred
}

type frame struct {
	i                *interpreter
	caller           *frame
	fn               *ssa.Function
	block, prevBlock *ssa.BasicBlock
	env              map[ssa.Value]value // dynamic values of SSA variables
	locals           []value
	defers           *deferred
	result           value
	panicking        bool
	panic            any
	phitemps         []value // temporaries for parallel phi assignment
	curInstr         ssa.Instruction
}

// chanStub stands for a channel value: it can be created, stored, compared and closed; nothing can be sent, and a
// receive succeeds only once it is closed (the "done flag" idiom, e.g. go/ssa's build tasks).
type chanStub struct{ closed bool }

func mustDeref(t types.Type) types.Type {
	if p, ok := t.Underlying().(*types.Pointer); ok {
		return p.Elem()
	}
	// type parameter core types do not occur: generics are instantiated
	panic(engineError{fmt.Sprintf("mustDeref: not a pointer: %v", t)})
}

func (fr *frame) get(key ssa.Value) value {
	switch key := key.(type) {
	case nil:
		// Hack; simplifies handling of optional attributes
		// such as ssa.Slice.{Low,High}.
		return nil
	case *ssa.Function, *ssa.Builtin:
		return key
	case *ssa.Const:
		return constValue(key)
	case *ssa.Global:
		if st, ok := fr.curInstr.(*ssa.Store); !ok || st.Addr != ssa.Value(key) {
			fr.i.checkGlobalRead(key)
		}
		return fr.i.global(key)
	}
	if r, ok := fr.env[key]; ok {
		return r
	}
	panic(engineError{fmt.Sprintf("get: no value for %T: %v", key, key.Name())})
}

// global returns the address of a package-level variable, creating its zero
// value on first use (package initialisers are not run, see DESIGN 2.5).
func (i *interpreter) global(g *ssa.Global) *value {
	if r, ok := i.globals[g]; ok {
		return r
	}
	cell := zero(mustDeref(g.Type()))
	if c, ok := i.shared.constInit[g]; ok {
		cell = constValue(c)
	}
	i.globals[g] = &cell
	return &cell
}

func (i *interpreter) where() string {
	fr := i.cur
	if fr == nil || fr.curInstr == nil {
		return ""
	}
	pos := fr.curInstr.Pos()
	f := fr
	for pos == token.NoPos && f != nil {
		if f.curInstr != nil {
			pos = f.curInstr.Pos()
		}
		f = f.caller
	}
	chain := ""
	for c, n := fr.caller, 0; c != nil && n < 6; c, n = c.caller, n+1 {
		chain += " <- " + c.fn.String()
	}
	return fmt.Sprintf("%s @ %s%s", fr.fn.String(), i.prog.Fset.Position(pos), chain)
}

// truth returns the value of a condition, forking the path when it is
// symbolic and both outcomes are feasible.
func (i *interpreter) truth(v value) bool {
	switch v := v.(type) {
	case bool:
		return v
	case sym:
		if v.kind != types.Bool {
			panic(engineError{"truth of non-bool symbol"})
		}
		return i.path.branch(i.nm(types.Bool, v.t))
	}
	panic(engineError{fmt.Sprintf("truth of %T", v)})
}

// nm gives a long term a name so that term text stays linear in the work done.
func (i *interpreter) nm(k types.BasicKind, t string) string {
	if len(t) < 240 {
		return t
	}
	p := i.path
	if n, ok := p.defs[t]; ok {
		return n
	}
	name := p.fresh("t")
	p.emit("(define-fun " + name + " () " + sortOfKind(k) + " " + t + ")")
	if p.defs == nil {
		p.defs = map[string]string{}
	}
	p.defs[t] = name
	return name
}

func (i *interpreter) nmv(v value) value {
	if s, ok := v.(sym); ok {
		return sym{s.kind, i.nm(s.kind, s.t)}
	}
	return v
}

// concreteInt returns a concrete int64 for an integer value; a symbolic one is
// enumerated by forking on each feasible value (the value must be bounded by
// the path condition for this to terminate; the path budget catches the rest).
func (i *interpreter) concreteInt(v value) int64 {
	s, ok := v.(sym)
	if !ok {
		return asInt64(v)
	}
	w := bvWidth(s.kind)
	if w == 0 {
		panic(engineError{"concreteInt of non-integer symbol"})
	}
	t := i.nm(s.kind, s.t)
	p := i.path
	for n := 0; ; n++ {
		if n > 64 {
			panic(engineError{"concretisation of a symbolic integer needs more than 64 cases at " + i.where()})
		}
		v32, ok := p.recorded(func() (int32, bool) {
			val, ok := p.pickValue(t, w)
			if !ok || val > 1<<30 {
				return 0, false
			}
			return int32(val), true
		})
		if !ok {
			panic(engineError{"cannot concretise symbolic integer (unbounded or no model) at " + i.where()})
		}
		val := uint64(v32)
		eq := "(= " + t + " " + bvLit(val, w) + ")"
		if p.choose([]string{eq, mkNot(eq)}, true) == 0 {
			return int64(val)
		}
	}
}

// runDefer runs a deferred call d.
// It always returns normally, but may set or clear fr.panic.
func (fr *frame) runDefer(d *deferred) {
	var ok bool
	defer func() {
		if !ok {
			// Deferred call created a new state of panic.
			r := recover()
			passThrough(r)
			fr.panicking = true
			fr.panic = r
		}
	}()
	call(fr.i, fr, d.instr.Pos(), d.fn, d.args)
	ok = true
}

// passThrough re-raises executor-level aborts so that the target program's
// defer/recover machinery never sees them.
func passThrough(r any) {
	switch r.(type) {
	case pathStop, engineError, *runtime.TypeAssertionError:
		panic(r)
	}
}

// runDefers executes fr's deferred function calls in LIFO order.
//
// On entry, fr.panicking indicates a state of panic; if
// true, fr.panic contains the panic value.
//
// On completion, if a deferred call started a panic, or if no
// deferred call recovered from a previous state of panic, then
// runDefers itself panics after the last deferred call has run.
//
// If there was no initial state of panic, or it was recovered from,
// runDefers returns normally.
func (fr *frame) runDefers() {
	for d := fr.defers; d != nil; d = d.tail {
		fr.runDefer(d)
	}
	fr.defers = nil
	if fr.panicking {
		panic(fr.panic) // new panic, or still panicking
	}
}

// lookupMethod returns the method set for type typ.
func lookupMethod(i *interpreter, typ types.Type, meth *types.Func) *ssa.Function {
	return i.prog.LookupMethod(typ, meth.Pkg(), meth.Name())
}

// index resolves an index into a sequence of length n: concrete indices are
// checked, symbolic ones are case-split over 0..n-1 and "out of range".
func (i *interpreter) index(idx value, n int) int {
	if s, ok := idx.(sym); ok {
		w := bvWidth(s.kind)
		t := i.nm(s.kind, s.t)
		guards := make([]string, 0, n+1)
		for k := 0; k < n; k++ {
			guards = append(guards, "(= "+t+" "+bvLit(uint64(k), w)+")")
		}
		oob := "(bvuge " + t + " " + bvLit(uint64(n), w) + ")"
		if isSignedKind(s.kind) {
			oob = "(or (bvslt " + t + " " + bvLit(0, w) + ") (bvsge " + t + " " + bvLit(uint64(n), w) + "))"
		}
		guards = append(guards, oob)
		k := i.path.choose(guards, true)
		if k == n {
			panic(targetRuntimeError(fmt.Sprintf("index out of range [symbolic] with length %d", n)))
		}
		return k
	}
	k := asInt64(idx)
	if k < 0 || k >= int64(n) {
		panic(targetRuntimeError(fmt.Sprintf("index out of range [%d] with length %d", k, n)))
	}
	return int(k)
}

// visitInstr interprets a single ssa.Instruction within the activation
// record frame.  It returns a continuation value indicating where to
// read the next instruction from.
func visitInstr(fr *frame, instr ssa.Instruction) continuation {
	i := fr.i
	switch instr := instr.(type) {
	case *ssa.DebugRef:
		// no-op

	case *ssa.UnOp:
		fr.env[instr] = i.unop(fr, instr, fr.get(instr.X))

	case *ssa.BinOp:
		fr.env[instr] = i.binop(instr.Op, instr.X.Type(), fr.get(instr.X), fr.get(instr.Y))

	case *ssa.Call:
		fn, args := prepareCall(fr, &instr.Call)
		fr.env[instr] = call(fr.i, fr, instr.Pos(), fn, args)

	case *ssa.ChangeInterface:
		fr.env[instr] = fr.get(instr.X)

	case *ssa.ChangeType:
		fr.env[instr] = fr.get(instr.X) // (can't fail)

	case *ssa.Convert:
		fr.env[instr] = i.conv(instr.Type(), instr.X.Type(), fr.get(instr.X))

	case *ssa.SliceToArrayPointer:
		fr.env[instr] = sliceToArrayPointer(instr.Type(), instr.X.Type(), fr.get(instr.X))

	case *ssa.MakeInterface:
		fr.env[instr] = iface{t: instr.X.Type(), v: fr.get(instr.X)}

	case *ssa.Extract:
		fr.env[instr] = fr.get(instr.Tuple).(tuple)[instr.Index]

	case *ssa.Slice:
		fr.env[instr] = i.slice(fr.get(instr.X), fr.get(instr.Low), fr.get(instr.High), fr.get(instr.Max))

	case *ssa.Return:
		switch len(instr.Results) {
		case 0:
		case 1:
			fr.result = fr.get(instr.Results[0])
		default:
			var res []value
			for _, r := range instr.Results {
				res = append(res, fr.get(r))
			}
			fr.result = tuple(res)
		}
		fr.block = nil
		return kReturn

	case *ssa.RunDefers:
		fr.runDefers()

	case *ssa.Panic:
		panic(targetPanic{fr.get(instr.X)})

	case *ssa.Send:
		panic(engineError{"channel send is not supported at " + i.where()})

	case *ssa.Store:
		if g, ok := instr.Addr.(*ssa.Global); ok {
			if i.written == nil {
				i.written = map[*ssa.Global]bool{}
			}
			i.written[g] = true
		}
		addr := fr.get(instr.Addr).(*value)
		if addr == nil {
			panic(targetRuntimeError("invalid memory address or nil pointer dereference"))
		}
		store(mustDeref(instr.Addr.Type()), addr, fr.get(instr.Val))

	case *ssa.If:
		succ := 1
		if i.truth(fr.get(instr.Cond)) {
			succ = 0
		}
		fr.prevBlock, fr.block = fr.block, fr.block.Succs[succ]
		return kJump

	case *ssa.Jump:
		fr.prevBlock, fr.block = fr.block, fr.block.Succs[0]
		return kJump

	case *ssa.Defer:
		fn, args := prepareCall(fr, &instr.Call)
		defers := &fr.defers
		if into := fr.get(instr.DeferStack); into != nil {
			defers = into.(**deferred)
		}
		*defers = &deferred{
			fn:    fn,
			args:  args,
			instr: instr,
			tail:  *defers,
		}

	case *ssa.Go:
		panic(engineError{"go statement is not supported at " + i.where()})

	case *ssa.MakeChan:
		// a channel may be created (e.g. by a package initialiser); using it is not supported
		fr.env[instr] = &chanStub{}

	case *ssa.Alloc:
		var addr *value
		if instr.Heap {
			// new
			addr = new(value)
			fr.env[instr] = addr
		} else {
			// local
			addr = fr.env[instr].(*value)
		}
		*addr = zero(mustDeref(instr.Type()))

	case *ssa.MakeSlice:
		c := i.concreteInt(fr.get(instr.Cap))
		l := i.concreteInt(fr.get(instr.Len))
		if l < 0 || c < l || c > 1<<24 {
			panic(targetRuntimeError("makeslice: len out of range"))
		}
		slice := make([]value, c)
		tElt := instr.Type().Underlying().(*types.Slice).Elem()
		for i := range slice {
			slice[i] = zero(tElt)
		}
		fr.env[instr] = slice[:l]

	case *ssa.MakeMap:
		fr.env[instr] = &omap{keyT: instr.Type().Underlying().(*types.Map).Key()}

	case *ssa.Range:
		fr.env[instr] = i.rangeIter(fr.get(instr.X))

	case *ssa.Next:
		fr.env[instr] = fr.get(instr.Iter).(iter).next()

	case *ssa.FieldAddr:
		p := fr.get(instr.X).(*value)
		if p == nil {
			panic(targetRuntimeError("invalid memory address or nil pointer dereference"))
		}
		fr.env[instr] = &(*p).(structure)[instr.Field]

	case *ssa.Field:
		fr.env[instr] = fr.get(instr.X).(structure)[instr.Field]

	case *ssa.IndexAddr:
		x := fr.get(instr.X)
		idx := fr.get(instr.Index)
		switch x := x.(type) {
		case []value:
			fr.env[instr] = &x[i.index(idx, len(x))]
		case *value: // *array
			if x == nil {
				panic(targetRuntimeError("invalid memory address or nil pointer dereference"))
			}
			a := (*x).(array)
			fr.env[instr] = &a[i.index(idx, len(a))]
		default:
			panic(engineError{fmt.Sprintf("unexpected x type in IndexAddr: %T", x)})
		}

	case *ssa.Index:
		x := fr.get(instr.X)
		idx := fr.get(instr.Index)

		switch x := x.(type) {
		case array:
			fr.env[instr] = x[i.index(idx, len(x))]
		case string:
			fr.env[instr] = x[i.index(idx, len(x))]
		case sym:
			fr.env[instr] = i.symStringIndex(x, idx)
		default:
			panic(engineError{fmt.Sprintf("unexpected x type in Index: %T", x)})
		}

	case *ssa.Lookup:
		fr.env[instr] = i.lookup(instr, fr.get(instr.X), fr.get(instr.Index))

	case *ssa.MapUpdate:
		m := fr.get(instr.Map)
		key := fr.get(instr.Key)
		v := fr.get(instr.Value)
		switch m := m.(type) {
		case *omap:
			if m == nil {
				panic(targetRuntimeError("assignment to entry in nil map"))
			}
			m.insert(i, key, v)
		default:
			panic(engineError{fmt.Sprintf("illegal map type: %T", m)})
		}

	case *ssa.TypeAssert:
		fr.env[instr] = typeAssert(instr, fr.get(instr.X).(iface))

	case *ssa.MakeClosure:
		var bindings []value
		for _, binding := range instr.Bindings {
			bindings = append(bindings, fr.get(binding))
		}
		fr.env[instr] = &closure{instr.Fn.(*ssa.Function), bindings}

	case *ssa.Phi:
		panic(engineError{"unreachable: phi"}) // phis are processed at block entry

	case *ssa.Select:
		// Channels can be created but never sent on or closed in this executor (both fail closed), so no
		// communication of a select is ever ready: a select with a default clause takes it; a blocking one
		// cannot be represented.
		if instr.Blocking {
			panic(engineError{"blocking select is not supported at " + i.where()})
		}
		chosen := -1
		for k, st := range instr.States {
			c, ok := fr.get(st.Chan).(*chanStub)
			if !ok {
				panic(engineError{"select on an unsupported channel value at " + i.where()})
			}
			if chosen < 0 && c != nil && c.closed {
				if st.Dir != types.RecvOnly {
					panic(targetRuntimeError("send on closed channel"))
				}
				chosen = k // a receive from a closed channel is ready
			}
		}
		r := tuple{chosen, false}
		for _, st := range instr.States {
			if st.Dir == types.RecvOnly {
				r = append(r, zero(st.Chan.Type().Underlying().(*types.Chan).Elem()))
			}
		}
		fr.env[instr] = r

	default:
		panic(engineError{fmt.Sprintf("unexpected instruction: %T", instr)})
	}

	return kNext
}

// prepareCall determines the function value and argument values for a
// function call in a Call, Go or Defer instruction, performing
// interface method lookup if needed.
func prepareCall(fr *frame, call *ssa.CallCommon) (fn value, args []value) {
	v := fr.get(call.Value)
	if call.Method == nil {
		// Function call.
		fn = v
	} else {
		// Interface method invocation.
		recv := v.(iface)
		if recv.t == nil {
			panic(targetRuntimeError("invalid memory address or nil pointer dereference (method invoked on nil interface)"))
		}
		if f := lookupMethod(fr.i, recv.t, call.Method); f == nil {
			// Unreachable in well-typed programs.
			panic(engineError{fmt.Sprintf("method set for dynamic type %v does not contain %s", recv.t, call.Method)})
		} else {
			fn = f
		}
		args = append(args, recv.v)
	}
	for _, arg := range call.Args {
		args = append(args, fr.get(arg))
	}
	return
}

// call interprets a call to a function (function, builtin or closure)
// fn with arguments args, returning its result.
// callpos is the position of the callsite.
func call(i *interpreter, caller *frame, callpos token.Pos, fn value, args []value) value {
	switch fn := fn.(type) {
	case *ssa.Function:
		if fn == nil {
			panic(targetRuntimeError("invalid memory address or nil pointer dereference (call of nil function)"))
		}
		return callSSA(i, caller, callpos, fn, args, nil)
	case *closure:
		return callSSA(i, caller, callpos, fn.Fn, args, fn.Env)
	case *ssa.Builtin:
		return callBuiltin(caller, fn, args)
	}
	panic(engineError{fmt.Sprintf("cannot call %T", fn)})
}

// callSSA interprets a call to function fn with arguments args,
// and lexical environment env, returning its result.
// callpos is the position of the callsite.
func callSSA(i *interpreter, caller *frame, callpos token.Pos, fn *ssa.Function, args []value, env []value) value {
	fr := &frame{
		i:      i,
		caller: caller, // for panic/recover
		fn:     fn,
	}
	if i.inInit && caller != nil && fn.Synthetic == "package initializer" && !i.shared.initPkgs[fn.Pkg] {
		return nil // another package's initialiser: not run (DESIGN 2.5)
	}
	info := i.shared.info(i, fn)
	if info.repl != nil {
		i.stubs[info.name]++
		fn = info.repl
		fr.fn = fn
		info = i.shared.info(i, fn)
	}
	if info.ext != nil {
		i.intr[info.name]++
		saved := i.cur
		if caller != nil {
			i.cur = caller
		}
		r := info.ext(fr, args)
		i.cur = saved
		return r
	}
	if fn.Blocks == nil {
		panic(engineError{"no code for function: " + info.name + " (called at " + i.where() + ")"})
	}
	i.funcs[info.name]++
	// regexp.MustCompile(pattern) is a pure function of a concrete pattern whose result is never mutated (Go >= 1.12
	// keeps matcher state in package-level pools): the value interpreted once is shared by all paths. The real
	// compiler code still runs - once per pattern and process instead of once per pattern and path.
	if info.name == "regexp.MustCompile" {
		if pat, ok := args[0].(string); ok {
			if v, hit := i.shared.regexMemo.Load(pat); hit {
				return v
			}
			defer func() {
				if r := recover(); r != nil {
					panic(r)
				}
				i.shared.regexMemo.Store(pat, fr.result)
			}()
		}
	}

	// generic function body?
	if fn.TypeParams().Len() > 0 && len(fn.TypeArgs()) == 0 {
		panic(engineError{"uninstantiated generic function " + info.name})
	}
	i.depth++
	if i.depth > 2000 {
		panic(pathStop{reason: "call depth 2000 exceeded in " + info.name})
	}
	saved := i.cur
	i.cur = fr
	defer func() { i.cur = saved; i.depth-- }()

	fr.env = make(map[ssa.Value]value)
	fr.block = fn.Blocks[0]
	fr.locals = make([]value, len(fn.Locals))
	for i, l := range fn.Locals {
		fr.locals[i] = zero(mustDeref(l.Type()))
		fr.env[l] = &fr.locals[i]
	}
	for i, p := range fn.Params {
		fr.env[p] = args[i]
	}
	for i, fv := range fn.FreeVars {
		fr.env[fv] = env[i]
	}
	for fr.block != nil {
		runFrame(fr)
	}
	if traceFnRe != nil && traceFnRe.MatchString(info.name) {
		fmt.Fprintf(os.Stderr, "TRACEFN %s%s -> %v\n", strings.Repeat(" ", i.depth%40), info.name, fr.result)
	}
	return fr.result
}

// traceFnRe (SYMX_TRACE_FN=regexp) prints the result of every matching interpreted function: a debugging aid
// for locating a difference between the executor and the native build.
var traceFnRe = func() *regexp.Regexp {
	if s := os.Getenv("SYMX_TRACE_FN"); s != "" {
		return regexp.MustCompile(s)
	}
	return nil
}()

// runFrame executes SSA instructions starting at fr.block and
// continuing until a return, a panic, or a recovered panic.
//
// After a panic, runFrame panics.
//
// After a normal return, fr.result contains the result of the call
// and fr.block is nil.
//
// A recovered panic in a function without named return parameters
// (NRPs) becomes a normal return of the zero value of the function's
// result type.
//
// After a recovered panic in a function with NRPs, fr.result is
// undefined and fr.block contains the block at which to resume
// control.
func runFrame(fr *frame) {
	defer func() {
		if fr.block == nil {
			return // normal return
		}
		r := recover()
		passThrough(r)
		if fr.i.lastWhere == "" {
			fr.i.lastWhere = fr.i.where() // the innermost frame sees the panic first
		}
		fr.panicking = true
		fr.panic = r
		fr.runDefers()
		fr.block = fr.fn.Recover
		if fr.block == nil {
			// recovered in a function without named results: return zero values
			fr.result = zero(fr.fn.Signature.Results())
			if fr.fn.Signature.Results().Len() == 0 {
				fr.result = nil
			}
		}
	}()

	p := fr.i.path
	for {
		nonPhis := executePhis(fr)
		for _, instr := range nonPhis {
			p.steps++
			if p.steps > fr.i.cfg.StepBudget {
				panic(pathStop{reason: fmt.Sprintf("step budget %d exceeded in %s", fr.i.cfg.StepBudget, fr.fn)})
			}
			fr.curInstr = instr
			if visitInstr(fr, instr) == kReturn {
				return
			}
			// Inv: kNext (continue) or kJump (last instr)
		}
	}
}

// executePhis executes the phi-nodes at the start of the current
// block and returns the non-phi instructions.
func executePhis(fr *frame) []ssa.Instruction {
	firstNonPhi := -1
	for i, instr := range fr.block.Instrs {
		if _, ok := instr.(*ssa.Phi); !ok {
			firstNonPhi = i
			break
		}
	}
	// Inv: 0 <= firstNonPhi; every block contains a non-phi.

	nonPhis := fr.block.Instrs[firstNonPhi:]
	if firstNonPhi > 0 {
		phis := fr.block.Instrs[:firstNonPhi]
		// Execute parallel assignment of phis.
		predIndex := slices.Index(fr.block.Preds, fr.prevBlock)
		fr.phitemps = fr.phitemps[:0]
		for _, phi := range phis {
			phi := phi.(*ssa.Phi)
			fr.phitemps = append(fr.phitemps, fr.get(phi.Edges[predIndex]))
		}
		for i, phi := range phis {
			fr.env[phi.(*ssa.Phi)] = fr.phitemps[i]
		}
	}
	return nonPhis
}

// doRecover implements the recover() built-in.
func doRecover(caller *frame) value {
	// recover() must be exactly one level beneath the deferred
	// function (two levels beneath the panicking function) to
	// have any effect.  Thus we ignore both "defer recover()" and
	// "defer f() -> g() -> recover()".
	if caller != nil && !caller.panicking &&
		caller.caller != nil && caller.caller.panicking {
		caller.caller.panicking = false
		p := caller.caller.panic
		caller.caller.panic = nil
		caller.i.lastWhere = "" // recovered by the program under test

		switch p := p.(type) {
		case targetPanic:
			// The target program explicitly called panic().
			return p.v
		case runtime.Error:
			// The interpreter encountered a runtime error.
			return iface{caller.i.runtimeErrorString, p.Error()}
		case string:
			// The interpreter explicitly called panic().
			return iface{caller.i.runtimeErrorString, p}
		default:
			panic(engineError{fmt.Sprintf("unexpected panic type %T in target call to recover()", p)})
		}
	}
	return iface{}
}

// panicString renders a target panic value for reports.
func (i *interpreter) panicString(v value) string {
	if itf, ok := v.(iface); ok {
		if s, ok := itf.v.(string); ok {
			return s
		}
		if itf.t != nil {
			// error or Stringer: call its method
			for _, name := range []string{"Error", "String"} {
				if m := i.lookupMethodByName(itf.t, name); m != nil && m.Blocks != nil {
					var out string
					func() {
						defer func() {
							if r := recover(); r != nil {
								passThrough(r)
								out = toString(itf.v)
							}
						}()
						r := call(i, nil, 0, m, []value{itf.v})
						if s, ok := r.(string); ok {
							out = s
						} else {
							out = toString(r)
						}
					}()
					return out
				}
			}
		}
		return toString(itf.v)
	}
	return toString(v)
}
