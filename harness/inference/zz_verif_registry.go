package inference

var ndHarnesses = map[string]func(){
	"Harness_C05_L1":           Harness_C05_L1,
	"Harness_C05_L2":           Harness_C05_L2,
	"Harness_C06":              Harness_C06,
	"Harness_C08_Filter":       Harness_C08_Filter,
	"Harness_C08_Rounds":       Harness_C08_Rounds,
	"Harness_C15_FuncKeys":     Harness_C15_FuncKeys,
	"Harness_C15_VarKeys":      Harness_C15_VarKeys,
	"Harness_C15_Stable":       Harness_C15_Stable,
	"Harness_C15_StableMethod": Harness_C15_StableMethod,
	"Harness_C04_K2":           Harness_C04_K2,
	"Harness_C04_K3":           Harness_C04_K3,
	"Harness_C04_K4":           Harness_C04_K4,
	"Harness_C10_Binding":      Harness_C10_Binding,
	"Harness_C06_Export":       Harness_C06_Export,
	"Harness_C06_Chain":        Harness_C06_Chain,
}
