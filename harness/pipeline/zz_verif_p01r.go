package accumulation

// P01R: loop-carried rotations (C01, the backward fixpoint over loops). K pointer variables j0..j(K-1) are
// rotated one position per iteration of a loop with an opaque bound, and j0 is dereferenced after the loop:
//
//	func chain(a *int) int { jK-1 := I(K-1); ...; j0 := I0; for k := 0; k < n; k++ { j0 = j1; ...; jK-2 = jK-1 }; return *j0 }
//	func Entry() int { v := 1; return chain(&v) }
//
// with every initialiser I_i one of new(int), nil, or the (non-nil) parameter a. After t iterations j0 holds
// I_min(t, K-1), so the dereference hits nil in some execution iff some initialiser is nil - that is the oracle,
// and the solver is asked for the iteration count (0..K-1, symbolic) that makes it so.
// Obligations: P01.A1 (reported), P01.A3 (the single dereference is reported on its line), P01.A2 (no nil
// initialiser: clean), P01.A4. K ranges over 2..KMAX.

//verif:use zz_verif_pipe.go

import (
	"strconv"
	"strings"
)

func Harness_P01R() {
	k := 2 + ndChoice("variables", ndParam("KMAX", 8)-1)
	nilAt := ndChoice("nil_position", k+1) - 1     // -1: no nil initialiser
	paramAt := ndChoice("param_position", k+1) - 1 // -1: the parameter is not used
	if paramAt >= 0 && paramAt == nilAt {
		ndAssume(false)
	}
	var b strings.Builder
	line := 0
	emit := func(s string) int { b.WriteString(s + "\n"); line++; return line }
	emit("package p")
	emit("")
	emit("var n int")
	emit("")
	emit("func chain(a *int) int {")
	for i := k - 1; i >= 0; i-- {
		switch {
		case i == nilAt:
			emit("\tvar j" + strconv.Itoa(i) + " *int")
		case i == paramAt:
			emit("\tj" + strconv.Itoa(i) + " := a")
		default:
			emit("\tj" + strconv.Itoa(i) + " := new(int)")
		}
	}
	emit("\tfor k := 0; k < n; k++ {")
	for i := 0; i+1 < k; i++ {
		emit("\t\tj" + strconv.Itoa(i) + " = j" + strconv.Itoa(i+1))
	}
	emit("\t}")
	derefLine := emit("\treturn *j0")
	emit("}")
	emit("")
	emit("func Entry() int {")
	emit("\tv := 1")
	emit("\treturn chain(&v)")
	emit("}")
	src := b.String()
	ndObserveStr("source", src)

	// the execution: t iterations, t symbolic in 0..K-1 (more iterations change nothing)
	t := ndInt("iterations", 0, k-1)
	hits := ndAnd(nilAt >= 0, t == nilAt) // after t rounds j0 holds I_t

	// NilAway stops its fixpoint after config.StableRoundLimit (5) rounds without a new trigger, so a nil that needs
	// six or more rounds to reach the dereference is missed unless something else keeps the rounds unstable: the
	// limitation is documented in the code; those inputs carry a class tag and are a recorded known finding
	class := ""
	if nilAt >= 6 {
		class = "[rotation_longer_than_the_stable_round_limit]"
	}
	r := pipeAnalyse(src)
	ndObserveInt("diagnostics", len(r.diags))
	internal := r.panicked != "" || len(r.funcErrs) > 0
	for _, d := range r.diags {
		ndObserveStr("diag", d.Message)
		if strings.Contains(d.Message, "INTERNAL") {
			internal = true
		}
	}
	ndAssert("P01.A4.no_internal_failure"+class, !internal)
	reported := len(r.diags) > 0
	ndAssert("P01.A1.a_reachable_nil_dereference_is_reported"+class, ndImplies(hits, reported))
	ndAssert("P01.A3.the_only_unchecked_dereference_is_reported_at_its_line"+class, ndImplies(hits, r.lines()[derefLine]))
	if nilAt < 0 {
		ndAssert("P01.A2.a_program_with_only_nil_checked_dereferences_is_not_reported", !reported)
	}
}
