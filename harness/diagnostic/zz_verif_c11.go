package diagnostic

// C11: a nolint comment suppresses exactly the diagnostics on its own lines (and C13: grouping
// never loses or alters a finding). Kernel (real code): (*Engine).Diagnostics including
// slices.SortFunc, groupConflicts, conflict.addSimilarConflict, the nolint range filter,
// involvesTestFile, conflict.String, nilFlow.String, node.String, pathString.
//
// Each conflict has a SYMBOLIC report position (line, offset) in one of two files, a nil path drawn
// from two identities, and a CONCRETE unique marker position as the last step of its non-nil path
// (that is what messages print), so the harness can read off, from the real messages, which
// conflicts were reported and under which leader. Nolint ranges have symbolic bounds.

import (
	"go/token"
	"strconv"
	"strings"

	"go.uber.org/nilaway/annotation"
	"go.uber.org/nilaway/config"
	"go.uber.org/nilaway/util/analysishelper"
	"golang.org/x/tools/go/analysis"
)

//verif:stub (*go.uber.org/nilaway/diagnostic.Engine).toPos = c11ToPosSym
//verif:stub go.uber.org/nilaway/diagnostic.c11NewFset = c11NewFsetSym

var ndHarnesses = map[string]func(){
	"Harness_C11":          Harness_C11,
	"Harness_C13":          Harness_C13,
	"Harness_C14_Conflict": Harness_C14_Conflict,
	"Harness_C14_ToPos":    Harness_C14_ToPos,
	"Harness_C04_K1":       Harness_C04_K1,
	"Harness_C11_Flow":     Harness_C11_Flow,
	"Harness_C04_K5":       Harness_C04_K5,
}

// toPos is the subject of C14; here it is the identity on offsets under symx (natively the real one runs).
func c11ToPosSym(e *Engine, p token.Position) token.Pos { return token.Pos(p.Offset + 1) }

func c11NewFset() *token.FileSet    { return token.NewFileSet() }
func c11NewFsetSym() *token.FileSet { return nil }

type c11Repr string

func (r c11Repr) String() string { return string(r) }

func c11Files() []string { return []string{"a.go", "b_test.go"} }

type c11Conf struct {
	file   int // index into c11Files
	line   int // symbolic
	offset int // symbolic
	nilID  int // which nil source (0/1)
	single bool
	marker token.Position
}

func c11Marker(k int, file string) token.Position {
	return token.Position{Filename: file, Line: 100 + k, Column: 1, Offset: 5000 + k}
}

func c11Build(k int, c c11Conf) conflict {
	files := c11Files()
	file := files[c.file]
	last := node{producerRepr: "p", consumerRepr: "dereferenced", consumerPosition: c.marker}
	var flow nilFlow
	if c.single {
		// single-assertion style: empty nil path, one non-nil node, valid producer position as group key
		last.producerPosition = token.Position{Filename: "a.go", Line: 900 + c.nilID, Column: 1}
		last.producerRepr = "literal `nil`"
		flow.nonnilPath = []node{last}
	} else {
		src := node{producerRepr: "nil source " + strconv.Itoa(c.nilID), consumerRepr: "returned",
			consumerPosition: token.Position{Filename: "a.go", Line: 800 + c.nilID, Column: 1}}
		flow.nilPath = []node{src}
		flow.nonnilPath = []node{last}
	}
	return conflict{position: token.Position{Filename: file, Line: c.line, Column: 1, Offset: c.offset}, flow: flow}
}

type c11World struct {
	confs    []c11Conf
	ranges   []Range
	exclude  bool
	grouping bool
}

func c11Read(N, R int, withRanges bool) *c11World {
	w := &c11World{}
	n := 1 + ndChoice("n", N)
	for k := 0; k < n; k++ {
		c := c11Conf{file: ndChoice("file", ndParam("FILES", 2)), line: ndInt("line", 1, 50), offset: ndInt("offset", 0, 1000), nilID: ndChoice("nil", 2), single: ndChoice("single", 2) == 1}
		c.marker = c11Marker(k, c11Files()[c.file])
		w.confs = append(w.confs, c)
	}
	if withRanges {
		r := ndChoice("nranges", R+1)
		for j := 0; j < r; j++ {
			from := ndInt("from", 1, 50)
			to := ndInt("to", 1, 50)
			ndAssume(from <= to)
			w.ranges = append(w.ranges, Range{Filename: c11Files()[ndChoice("rfile", 2)], From: from, To: to})
		}
		w.exclude = ndChoice("exclude_tests", 2) == 1
	}
	w.grouping = ndChoice("grouping", 2) == 1
	return w
}

func (w *c11World) engine() *Engine {
	NoLintAnalyzer = &analysis.Analyzer{Name: "nilaway_nolint_analyzer"}
	config.Analyzer = &analysis.Analyzer{Name: "nilaway_config"}
	pass := analysishelper.NewEnhancedPass(&analysis.Pass{
		Fset: c11NewFset(),
		ResultOf: map[*analysis.Analyzer]interface{}{
			NoLintAnalyzer:  &analysishelper.Result[[]Range]{Res: w.ranges},
			config.Analyzer: &config.Config{ExcludeTestFiles: w.exclude},
		},
	})
	e := &Engine{pass: pass, files: map[string]fileInfo{}}
	for k, c := range w.confs {
		e.conflicts = append(e.conflicts, c11Build(k, c))
	}
	return e
}

// c11Decode reads the real messages: leader[k] = index of the diagnostic led by conflict k (or -1),
// member[k] = index of the diagnostic that lists conflict k among its "other places" (or -1).
func (w *c11World) decode(diags []analysis.Diagnostic) (leader, member []int, counts []int) {
	leader = make([]int, len(w.confs))
	member = make([]int, len(w.confs))
	counts = make([]int, len(diags))
	for k := range w.confs {
		leader[k], member[k] = -1, -1
		pos := w.confs[k].marker.String()
		for d, dg := range diags {
			if strings.Contains(dg.Message, "\t- "+pos+": ") {
				leader[k] = d
			}
			if strings.Contains(dg.Message, "\""+pos+"\"") {
				member[k] = d
			}
		}
	}
	for d, dg := range diags {
		counts[d] = 0
		if i := strings.Index(dg.Message, "nil panic(s) at "); i >= 0 {
			rest := dg.Message[i+len("nil panic(s) at "):]
			if j := strings.Index(rest, " other place(s)"); j >= 0 {
				n, err := strconv.Atoi(rest[:j])
				if err != nil {
					n = -1
				}
				counts[d] = n
			}
		}
	}
	return
}

func (w *c11World) suppressed(k int) bool {
	c := w.confs[k]
	in := false
	for _, r := range w.ranges {
		if r.Filename == c11Files()[c.file] {
			in = ndOr(in, ndAnd(c.line >= r.From, c.line <= r.To))
		}
	}
	if w.exclude && strings.HasSuffix(c11Files()[c.file], "_test.go") {
		in = true
	}
	return in
}

func Harness_C11() {
	w := c11Read(ndParam("N", 3), ndParam("R", 2), true)
	e := w.engine()
	diags := e.Diagnostics(w.grouping)
	leader, member, _ := w.decode(diags)
	ndObserveInt("n_diagnostics", len(diags))
	label := ",grouping=off"
	if w.grouping {
		label = ",grouping=on"
	}
	for k := range w.confs {
		reported := leader[k] >= 0 || member[k] >= 0
		ndObserveBool("reported", reported)
		// A1: reported iff not on a nolint line (and not excluded as a test file)
		ndAssert("C11.A1.reported_iff_not_suppressed"+label, ndIff(reported, ndNot(w.suppressed(k))))
		ndAssert("C11.A2.reported_once"+label, !(leader[k] >= 0 && member[k] >= 0))
		// A2: never regrouped under a different nil source
		if member[k] >= 0 {
			for j := range w.confs {
				if leader[j] == member[k] {
					ndAssert("C11.A2.member_shares_leaders_nil_source"+label, w.confs[j].nilID == w.confs[k].nilID && w.confs[j].single == w.confs[k].single)
				}
			}
		}
	}
}

// Harness_C13: with grouping on, every location reported with grouping off appears exactly once
// (leader or one "other place(s)" list of a diagnostic with the same nil source), the stated count
// equals the list length, and no new location appears.
func Harness_C13() {
	w := c11Read(ndParam("N", 3), 0, false)
	w.grouping = false
	plain := w.engine().Diagnostics(false)
	grouped := w.engine().Diagnostics(true)
	lp, mp, _ := w.decode(plain)
	lg, mg, counts := w.decode(grouped)
	ndObserveInt("n_plain", len(plain))
	ndObserveInt("n_grouped", len(grouped))
	listLen := make([]int, len(grouped))
	for k := range w.confs {
		ndAssert("C13.plain_reports_every_conflict_as_its_own_diagnostic", lp[k] >= 0 && mp[k] < 0)
		ndAssert("C13.grouped_reports_every_location_exactly_once", (lg[k] >= 0) != (mg[k] >= 0))
		if mg[k] >= 0 {
			listLen[mg[k]]++
			for j := range w.confs {
				if lg[j] == mg[k] {
					ndAssert("C13.member_has_leaders_nil_source", w.confs[j].nilID == w.confs[k].nilID && w.confs[j].single == w.confs[k].single)
				}
			}
		}
	}
	for d := range grouped {
		ndAssert("C13.stated_count_equals_list_length", counts[d] == listLen[d])
	}
	ndAssert("C13.no_new_diagnostics", len(grouped) <= len(plain))
}

// Harness_C11_Flow (C11 through the engine's own entry point): conflicts are handed to the engine by
// AddOverconstraintConflict as explanation chains whose hops lie on different (symbolic) lines; a
// nolint range must suppress a conflict iff the line it is REPORTED at - the last hop of the
// non-nil flow - lies inside the range, never because some other hop of the flow does.
func Harness_C11_Flow() {
	n := 1 + ndChoice("conflicts", ndParam("N", 2))
	grouping := ndChoice("grouping", 2) == 1
	from := ndInt("from", 1, 50)
	to := ndInt("to", 1, 50)
	ndAssume(from <= to)
	w := &c11World{ranges: []Range{{Filename: "a.go", From: from, To: to}}, grouping: grouping}
	e := w.engine()
	want := 0
	for k := 0; k < n; k++ {
		hops := 1 + ndChoice("nonnil_hops", 2)
		var head, tail *c14Exp
		var last token.Position
		for h := 0; h < hops; h++ {
			p := token.Position{Filename: "a.go", Line: ndInt("hop_line", 1, 50), Column: 1 + k, Offset: 100*k + 10*h}
			x := &c14Exp{val: false, pos: p}
			if head == nil {
				head = x
			} else {
				tail.deeper = x
			}
			tail, last = x, p
		}
		// a distinct nil source per conflict, so that grouping has nothing to merge
		nilR := &c14Exp{val: true, pos: token.Position{Filename: "a.go", Line: 900 + k, Column: 1, Offset: 9000 + k}}
		e.AddOverconstraintConflict(nilR, head)
		suppressed := ndAnd(last.Line >= from, last.Line <= to)
		want += ndIteInt(suppressed, 0, 1)
	}
	diags := e.Diagnostics(grouping)
	ndObserveInt("diagnostics", len(diags))
	ndAssert("C11.F.suppressed_iff_the_reported_line_is_in_the_range", len(diags) == want)
}

var _ = annotation.LocatedRepr{}
var _ = c11Repr("")
