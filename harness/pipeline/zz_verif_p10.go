package accumulation

// C10 at source level: explicit annotations are binding. The programs of the C01 grammar (always with a call,
// so that the callee exists) carry ONE doc annotation: nilable / nonnil on the callee's parameter (by name; `param N` is the
// spelling for anonymous parameters only), on its result (`result 0`), or on the package-level pointer (declared plainly, inside a
// parenthesised group with a header comment, or without an explicit type). The annotation changes
// the oracle, not the program text:
//   nilable site  - the site is a nil source of its own: the parameter inside the callee, the result at every call, the
//                   package-level pointer when Entry starts hold an arbitrary value (fresh symbolic bool), so every unchecked dereference it reaches must be reported (P01.A1), while a program
//                   whose dereferences are all nil-checked stays clean (P01.A2, P01.A5)
//   nonnil site   - nil flowing into it (argument, returned value, stored value) is an event of its own that must
//                   be reported (P01.A1); diagnostics may then also sit on the flow-in lines (P01.A5)
// Everything else is Harness_P01.

//verif:use zz_verif_pipe.go

func Harness_P10() {
	n := ndParam("STMTS", 2)
	compound := ndParam("COMPOUND", 4)
	g := &p01Gen{x: true, y: true, g: true, live: true, calleeKind: -1, simple: ndParam("SIMPLE", 9)}
	switch ndChoice("annotation", 6) {
	case 0:
		g.annA = 1
	case 1:
		g.annA = 2
	case 2:
		g.annR = 1
	case 3:
		g.annR = 2
	case 4:
		g.annG = 1
	default:
		g.annG = 2
	}
	g.emit("package p")
	g.emit("")
	g.emit("var flag0, flag1, flag2, flag3, calleeflag bool")
	if g.annG != 0 {
		// the declaration forms of the annotated package-level pointer: plain, inside a parenthesised group that has
		// a header comment of its own, or without an explicit type (initialised from a call)
		keyword := "nilable"
		if g.annG == 2 {
			keyword = "nonnil"
		}
		switch ndChoice("global_declaration", 4) {
		case 0:
			g.emit("// " + keyword + "(g)")
			if g.annG == 2 {
				g.gDeclLine = g.emit("var g *int = new(int)")
			} else {
				g.gDeclLine = g.emit("var g *int")
			}
		case 1:
			g.emit("// package state")
			g.emit("var (")
			g.emit("\t// " + keyword + "(g)")
			if g.annG == 2 {
				g.gDeclLine = g.emit("\tg *int = new(int)")
			} else {
				g.gDeclLine = g.emit("\tg *int")
			}
			g.emit("\tother int")
			g.emit(")")
		case 3: // a parenthesised group with a single spec: the annotation sits on the spec
			g.emit("var (")
			g.emit("\t// " + keyword + "(g)")
			if g.annG == 2 {
				g.gDeclLine = g.emit("\tg *int = new(int)")
			} else {
				g.gDeclLine = g.emit("\tg *int")
			}
			g.emit(")")
		default:
			g.emit("func load() *int { return new(int) }")
			g.emit("")
			g.emit("// " + keyword + "(g)")
			g.gDeclLine = g.emit("var g = load()")
		}
		if g.annG == 1 {
			g.g = ndBool("g_annotated_nilable") // its value when Entry starts is arbitrary
		} else {
			g.g = false // initialised non-nil; nil may only flow in through `g = x`
		}
	} else {
		g.gDeclLine = g.emit("var g *int")
	}
	g.emit("")
	g.emit("func Entry() {")
	g.emit("\tvar x, y *int")
	// the call comes first or last, the other statements are free
	callFirst := ndChoice("call_first", 2) == 1
	if callFirst {
		g.call()
	}
	for k := 1; k < n; k++ {
		g.stmt(compound)
	}
	if !callFirst {
		g.call()
	}
	g.emit("\t_, _ = x, y")
	g.emit("}")
	calleeDeref := g.emitCallee()
	src := g.b.String()
	if ndChoice("names_with_underscore", 2) == 1 {
		// the annotated names contain an underscore (a_p, g_v)
		src = p10Rename(src)
	}
	ndObserveStr("source", src)
	pipeContracts = ndParam("CONTRACTS", 0) == 1
	g.judge(src, calleeDeref, 0)
	pipeContracts = false
}

// p10Rename renames the callee's parameter a to a_p and the package-level pointer g to g_v (whole words only).
func p10Rename(src string) string {
	isWord := func(c byte) bool {
		return c == '_' || (c >= '0' && c <= '9') || (c >= 'a' && c <= 'z') || (c >= 'A' && c <= 'Z')
	}
	out := make([]byte, 0, len(src)+32)
	for k := 0; k < len(src); k++ {
		c := src[k]
		if (c == 'a' || c == 'g') && (k == 0 || !isWord(src[k-1])) && (k+1 == len(src) || !isWord(src[k+1])) {
			if c == 'a' {
				out = append(out, "a_p"...)
			} else {
				out = append(out, "g_v"...)
			}
			continue
		}
		out = append(out, c)
	}
	return string(out)
}
