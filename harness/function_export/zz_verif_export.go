package function

import (
	"go/ast"
	"go/types"

	"go.uber.org/nilaway/annotation"
	"go.uber.org/nilaway/assertion/function/functioncontracts"
	"go.uber.org/nilaway/util/analysishelper"
)

// VerifDuplicate runs the REAL duplicateFullTriggersFromContractedFunctionsToCallers on per-function results
// that a harness of another package produced function by function (declaration order = index order).
func VerifDuplicate(pass *analysishelper.EnhancedPass, contracts functioncontracts.Map, decls []*ast.FuncDecl, triggers [][]annotation.FullTrigger) {
	results := map[*types.Func]*functionResult{}
	for i, d := range decls {
		obj, ok := pass.TypesInfo.ObjectOf(d.Name).(*types.Func)
		if !ok {
			continue
		}
		results[obj] = &functionResult{triggers: triggers[i], index: i, funcDecl: d}
	}
	if len(contracts) != 0 {
		duplicateFullTriggersFromContractedFunctionsToCallers(pass, contracts, triggers, results)
	}
}
