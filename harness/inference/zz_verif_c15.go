package inference

// C15: distinct sites never alias; one identity everywhere (DESIGN.md section 4, C15).
//
// Kernel (real code): the String() methods of the annotation key kinds (annotation/key.go) and
// (*primitivizer).site. Two keys are built over the SAME declaring object (for keys over different
// objects the type checker's contract "distinct objects of a package have distinct positions"
// separates the sites through the Position field); kinds are a choice, names are symbolic
// identifiers, parameter/result indices and call-site locations symbolic integers.
//  A1 injective: site(k1,d1) == site(k2,d2)  =>  k1 and k2 are the same key and d1 == d2
//  A2 stable: for an object of a dependency recorded in an imported fact under
//     "<pkg>.<objectpath>", the importer computes the recorded identity whatever local position
//     its loader gives the object.

//verif:use zz_verif_c06.go

import (
	"go/token"
	"go/types"

	"go.uber.org/nilaway/annotation"
	"go.uber.org/nilaway/util/analysishelper"
	"golang.org/x/tools/go/analysis"
	"golang.org/x/tools/go/types/objectpath"
)

//verif:stub (*go.uber.org/nilaway/inference.primitivizer).toPosition = c15ToPosition
//verif:stub (*go.uber.org/nilaway/inference.primitivizer).objectPath = c15ObjectPath
//verif:stub go.uber.org/nilaway/inference.c15Int = c15IntSym
//verif:stub go.uber.org/nilaway/inference.c15Fset = c15FsetSym
//verif:stub go.uber.org/nilaway/inference.c15Pkg = c15PkgSym
//verif:stub go.uber.org/nilaway/inference.c15Declare = c15DeclareSym

var c15Paths map[types.Object]objectpath.Path

// contract of toPosition: an injective map from token.Pos inside one file set to (file, offset, line, column)
func c15ToPosition(p *primitivizer, pos token.Pos) token.Position {
	return token.Position{Filename: "f.go", Offset: int(pos) - 1, Line: 1, Column: int(pos)}
}

func c15ObjectPath(p *primitivizer, obj types.Object) objectpath.Path { return c15Paths[obj] }

// c15Int: the type used for parameters/results (natively types.Typ[types.Int]; irrelevant under symx).
func c15Int() types.Type    { return types.Typ[types.Int] }
func c15IntSym() types.Type { return nil }

// c15Fset: natively a file set holding one single-line file "f.go" at base 1, for which the real
// toPosition returns exactly what the stub's contract says.
func c15Fset() *token.FileSet {
	fs := token.NewFileSet()
	fs.AddFile("f.go", 1, 1<<20)
	return fs
}
func c15FsetSym() *token.FileSet { return nil }

// c15Pkg / c15Declare: natively a real package whose scope holds the object (so that the real
// objectPath takes its package-level fast path and returns the object's name, like the stub).
func c15Pkg(path string) *types.Package { return types.NewPackage(path, "p") }
func c15PkgSym(path string) *types.Package {
	p := new(types.Package)
	c06PkgNames[p] = path
	return p
}
func c15Declare(pkg *types.Package, obj types.Object)    { pkg.Scope().Insert(obj) }
func c15DeclareSym(pkg *types.Package, obj types.Object) { c15Paths[obj] = objectpath.Path(obj.Name()) }

type c15Env struct {
	pkg        *types.Package
	fn         *types.Func
	fld1, fld2 *types.Var
	v          *types.Var
	tn         *types.TypeName
}

func c15Build() *c15Env {
	e := &c15Env{}
	t := c15Int()
	p0 := types.NewVar(token.Pos(20), e.pkg, ndIdent("param0", 3), t)
	p1 := types.NewVar(token.Pos(21), e.pkg, ndIdent("param1", 3), t)
	r0 := types.NewVar(token.Pos(22), e.pkg, "", t)
	r1 := types.NewVar(token.Pos(23), e.pkg, "", t)
	// the receiver's type is a named type whose name may or may not be exported (methods of unexported
	// types reached through an exported constructor are part of a package's API all the same)
	recvType := types.Type(types.NewPointer(types.NewNamed(types.NewTypeName(token.Pos(25), e.pkg, ndIdent("recv_type", 3), nil), nil, nil)))
	recv := types.NewVar(token.Pos(24), e.pkg, ndIdent("recv", 3), recvType)
	sig := types.NewSignatureType(recv, nil, nil, types.NewTuple(p0, p1), types.NewTuple(r0, r1), false)
	e.fn = types.NewFunc(token.Pos(10), e.pkg, ndIdent("fname", 3), sig)
	n1 := ndIdent("field1", 3)
	n2 := ndIdent("field2", 3)
	ndAssume(n1 != n2) // two fields of one struct have different names
	e.fld1 = types.NewVar(token.Pos(30), e.pkg, n1, t)
	e.fld2 = types.NewVar(token.Pos(31), e.pkg, n2, t)
	e.v = types.NewVar(token.Pos(40), e.pkg, ndIdent("vname", 3), t)
	e.tn = types.NewTypeName(token.Pos(50), e.pkg, ndIdent("tname", 3), nil)
	return e
}

type c15Key struct {
	key   annotation.Key
	class int // which family of declaring object
	kind  int
	idx   int  // param / result index
	file  int  // call-site location file (index)
	line  int  // call-site location line
	col   int  // call-site location column
	fld   int  // which field object (1/2)
	side  bool // IsTrackingSideEffect
}

const (
	c15CallSiteParam = iota
	c15Param
	c15CallSiteRet
	c15Ret
	c15RetField
	c15ParamField
	c15Recv
	c15FuncKinds
)

func c15Loc(file, line, col int) token.Position {
	return token.Position{Filename: []string{"c.go", "d.go"}[file], Line: line, Column: col, Offset: 100*line + col}
}

func c15ReadFuncKey(e *c15Env, tag string) c15Key {
	k := c15Key{class: 0, kind: ndChoice(tag+"_kind", c15FuncKinds)}
	pick := func() *types.Var {
		k.fld = 1 + ndChoice(tag+"_field", 2)
		if k.fld == 1 {
			return e.fld1
		}
		return e.fld2
	}
	switch k.kind {
	case c15CallSiteParam:
		k.idx = ndChoice(tag+"_idx", 2)
		k.file = ndChoice(tag+"_file", 2)
		k.line, k.col = ndInt(tag+"_line", 1, ndParam("LOCMAX", 12)), ndInt(tag+"_col", 1, ndParam("LOCMAX", 12))
		k.key = &annotation.CallSiteParamAnnotationKey{FuncDecl: e.fn, ParamNum: k.idx, Location: c15Loc(k.file, k.line, k.col)}
	case c15Param:
		k.idx = ndChoice(tag+"_idx", 2)
		k.key = &annotation.ParamAnnotationKey{FuncDecl: e.fn, ParamNum: k.idx}
	case c15CallSiteRet:
		k.idx = ndInt(tag+"_idx", 0, ndParam("LOCMAX", 12))
		k.file = ndChoice(tag+"_file", 2)
		k.line, k.col = ndInt(tag+"_line", 1, ndParam("LOCMAX", 12)), ndInt(tag+"_col", 1, ndParam("LOCMAX", 12))
		k.key = &annotation.CallSiteRetAnnotationKey{FuncDecl: e.fn, RetNum: k.idx, Location: c15Loc(k.file, k.line, k.col)}
	case c15Ret:
		k.idx = ndInt(tag+"_idx", 0, ndParam("LOCMAX", 12))
		k.key = &annotation.RetAnnotationKey{FuncDecl: e.fn, RetNum: k.idx}
	case c15RetField:
		k.idx = ndInt(tag+"_idx", 0, ndParam("LOCMAX", 12))
		k.key = &annotation.RetFieldAnnotationKey{FuncDecl: e.fn, RetNum: k.idx, FieldDecl: pick()}
	case c15ParamField:
		k.idx = ndChoice(tag+"_idx", 3) - 1 // -1 = receiver
		k.side = ndChoice(tag+"_side", 2) == 1
		k.key = &annotation.ParamFieldAnnotationKey{FuncDecl: e.fn, ParamNum: k.idx, FieldDecl: pick(), IsTrackingSideEffect: k.side}
	case c15Recv:
		k.key = &annotation.RecvAnnotationKey{FuncDecl: e.fn}
	}
	return k
}

func c15SameKey(a, b c15Key) bool {
	if a.class != b.class || a.kind != b.kind {
		return false
	}
	return ndAnd(ndAnd(a.idx == b.idx, ndAnd(a.line == b.line, a.col == b.col)), a.fld == b.fld && a.side == b.side && a.file == b.file)
}

func c15Primitivizer(pkg *types.Package) *primitivizer {
	c15Paths = map[types.Object]objectpath.Path{}
	pass := analysishelper.NewEnhancedPass(&analysis.Pass{Pkg: pkg, Fset: c15Fset(), AllPackageFacts: func() []analysis.PackageFact { return nil }})
	return newPrimitivizer(pass)
}

func Harness_C15_FuncKeys() {
	e := c15Build()
	p := c15Primitivizer(e.pkg)
	k1 := c15ReadFuncKey(e, "k1")
	k2 := c15ReadFuncKey(e, "k2")
	d1 := ndBool("deep1")
	d2 := ndBool("deep2")
	s1 := p.site(k1.key, d1)
	s2 := p.site(k2.key, d2)
	ndObserveBool("same_repr", s1.Repr == s2.Repr)
	ndAssert("C15.A1.site_identity_is_injective", ndImplies(s1 == s2, ndAnd(c15SameKey(k1, k2), ndIff(d1, d2))))
	ndAssert("C15.A1.same_key_same_site", ndImplies(ndAnd(c15SameKey(k1, k2), ndIff(d1, d2)), s1 == s2))
	// the identity's "exported" bit (which decides whether the verdict is published) is the declaring object's
	ndAssert("C15.A2.site_is_exported_iff_its_declaring_object_is", ndIff(s1.Exported, token.IsExported(e.fn.Name())))
}

func Harness_C15_VarKeys() {
	e := c15Build()
	p := c15Primitivizer(e.pkg)
	mk := func(tag string) (annotation.Key, int) {
		kind := ndChoice(tag+"_kind", 4)
		switch kind {
		case 0:
			return &annotation.FieldAnnotationKey{FieldDecl: e.v}, kind
		case 1:
			return &annotation.GlobalVarAnnotationKey{VarDecl: e.v}, kind
		case 2:
			return &annotation.LocalVarAnnotationKey{VarDecl: e.v}, kind
		}
		return &annotation.EscapeFieldAnnotationKey{FieldDecl: e.v}, kind
	}
	k1, kind1 := mk("k1")
	k2, kind2 := mk("k2")
	d1 := ndBool("deep1")
	d2 := ndBool("deep2")
	s1 := p.site(k1, d1)
	s2 := p.site(k2, d2)
	ndObserveBool("same_repr", s1.Repr == s2.Repr)
	ndObserveStr("repr1", s1.Repr)
	ndObserveStr("repr2", s2.Repr)
	ndAssert("C15.A1.site_identity_is_injective", ndImplies(s1 == s2, ndAnd(kind1 == kind2, ndIff(d1, d2))))
	// a named type and a variable with the same name and (impossible) same position still differ by repr
	st := p.site(&annotation.TypeNameAnnotationKey{TypeDecl: e.tn}, d1)
	ndAssert("C15.A1.type_name_site_differs_from_variable_sites", st != s1)
}

// Harness_C15_Stable (A2): re-keying of a dependency's object by "<pkg>.<objectpath>".
func Harness_C15_Stable() {
	c06PkgNames = map[*types.Package]string{}
	c15Paths = map[types.Object]objectpath.Path{}
	dep := c15Pkg("m/dep")
	recorded := token.Position{Filename: "dep/f.go", Offset: ndInt("rec_offset", 0, 9999), Line: ndInt("rec_line", 1, 999), Column: ndInt("rec_col", 1, 99)}
	name := ndIdent("name", 4)
	ndAssume(token.IsExported(name)) // object paths exist for exported objects only
	// the dependency published a site for exported object `name` at its true position
	fact := newInferredMap(nil)
	depSite := primitiveSite{Position: recorded, PkgPath: "m/dep", Repr: "Global Variable " + name, Exported: true, ObjectPath: objectpath.Path(name)}
	fact.StoreDetermined(depSite, TrueBecauseAnnotation{AnnotationPos: recorded})
	local := c15Pkg("m/app")
	pass := analysishelper.NewEnhancedPass(&analysis.Pass{Pkg: local, Fset: c15Fset(),
		AllPackageFacts: func() []analysis.PackageFact { return []analysis.PackageFact{{Package: dep, Fact: fact}} }})
	p := newPrimitivizer(pass)
	// the importer sees the same object with an arbitrary (imprecise) local position
	obj := types.NewVar(token.Pos(1+ndInt("local_pos", 0, 99999)), dep, name, nil)
	c15Declare(dep, obj)
	got := p.site(&annotation.GlobalVarAnnotationKey{VarDecl: obj}, false)
	ndObserveInt("line", got.Position.Line)
	ndAssert("C15.A2.importer_computes_the_recorded_identity", got == depSite)
	// an object that the dependency did not publish keeps its local position
	other := types.NewVar(token.Pos(7), dep, "Zz"+ndIdent("other", 3), nil)
	c15Declare(dep, other)
	got2 := p.site(&annotation.GlobalVarAnnotationKey{VarDecl: other}, false)
	ndAssume(other.Name() != name)
	ndAssert("C15.A2.unpublished_object_keeps_local_position", got2.Position.Offset == 6)
}
