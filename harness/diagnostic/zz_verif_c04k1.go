package diagnostic

// C04-K1: the nolint ranges a package exports (fact *NoLint) and returns must not depend on the
// iteration order of ast.CommentMap (a Go map). Kernel (real code): diagnostic.run,
// nolintContainsNilAway, slices.Concat; the real go/token position code.
// The kernel is run twice in one path with independent map orders (symx explores every order).

//verif:init go.uber.org/nilaway/util/tokenhelper
//verif:stub go/ast.NewCommentMap = c04NewCommentMap
//verif:stub go.uber.org/nilaway/diagnostic.c04File = c04FileSym

import (
	"go/ast"
	"go/parser"
	"go/token"

	"golang.org/x/tools/go/analysis"
)

var c04Map ast.CommentMap

func c04NewCommentMap(fset *token.FileSet, node ast.Node, comments []*ast.CommentGroup) ast.CommentMap {
	return c04Map
}

// c04File (native): a real file with three suppressed statements.
func c04File(n int) (*token.FileSet, *ast.File) {
	src := "package p\n\nfunc f() {\n\tvar a, b, c *int\n\t_ = *a //nolint:nilaway\n\t_ = *b //nolint:all // reason\n"
	if n > 2 {
		src += "\t_ = *c //nolint\n"
	}
	src += "\t_ = c\n}\n"
	fset := token.NewFileSet()
	f, err := parser.ParseFile(fset, "a.go", src, parser.ParseComments)
	if err != nil {
		panic(err)
	}
	return fset, f
}

// c04FileSym (symx): a file of 5 lines of 10 bytes; n statements with symbolic line ranges, each
// carrying one nolint comment; the comment map the std lib would build is handed over directly.
func c04FileSym(n int) (*token.FileSet, *ast.File) {
	fset := token.NewFileSet()
	tf := fset.AddFile("a.go", fset.Base(), 50)
	lines := make([]int, 5)
	for i := range lines {
		lines[i] = 10 * i
	}
	tf.SetLines(lines)
	base := tf.Base()
	c04Map = ast.CommentMap{}
	texts := []string{"//nolint:nilaway", "//nolint:all // reason", "// nolint", "//nolint:errcheck"}
	for k := 0; k < n; k++ {
		from := ndInt("from_line", 1, 4)
		to := ndInt("to_line", 1, 4)
		ndAssume(from <= to)
		stmt := &ast.ExprStmt{X: &ast.BasicLit{ValuePos: token.Pos(base + 10*(from-1) + 1), Kind: token.INT, Value: "12"}}
		// the statement spans from `from` to `to`: End() of a BasicLit is ValuePos+len(Value); use a call to stretch it
		node := ast.Node(&ast.CallExpr{Fun: stmt.X, Lparen: token.Pos(base + 10*(from-1) + 3), Rparen: token.Pos(base + 10*(to-1) + 5)})
		text := texts[ndChoice("comment_text", len(texts))]
		c04Map[node] = []*ast.CommentGroup{{List: []*ast.Comment{{Slash: token.Pos(base + 10*(to-1) + 7), Text: text}}}}
	}
	return fset, &ast.File{Name: &ast.Ident{Name: "p"}}
}

func Harness_C04_K1() {
	n := 2 + ndChoice("statements", ndParam("STMTS", 3)-1)
	fset, file := c04File(n)
	var exported [2][]Range
	var returned [2][]Range
	ndMapOrder(true)
	for r := 0; r < 2; r++ {
		r := r
		pass := &analysis.Pass{Fset: fset, Files: []*ast.File{file},
			AllPackageFacts:   func() []analysis.PackageFact { return nil },
			ExportPackageFact: func(f analysis.Fact) { exported[r] = f.(*NoLint).Ranges }}
		res, err := run(pass)
		if err != nil {
			panic(err)
		}
		returned[r] = res
	}
	ndMapOrder(false)
	same := func(a, b []Range) bool {
		if len(a) != len(b) {
			return false
		}
		ok := true
		for i := range a {
			ok = ndAnd(ok, ndAnd(a[i].Filename == b[i].Filename, ndAnd(a[i].From == b[i].From, a[i].To == b[i].To)))
		}
		return ok
	}
	ndAssert("C04.K1.exported_nolint_fact_is_independent_of_map_order", same(exported[0], exported[1]))
	ndAssert("C04.K1.returned_nolint_ranges_are_independent_of_map_order", same(returned[0], returned[1]))
}
