// symx: bounded symbolic execution of Go SSA for /verif checks.
//
//	symx -repo /repo -pkg inference -harness h.go[,nd.go] -entry Harness_X -out res.json
package main

import (
	"encoding/json"
	"flag"
	"fmt"
	"os"
	"path/filepath"
	"regexp"
	"sort"
	"strings"
	"time"

	"symx/interp"
)

type output struct {
	Entry          string                        `json:"entry"`
	Solver         string                        `json:"solver"`
	Workers        int                           `json:"workers"`
	LoadS          float64                       `json:"load_s"`
	WallS          float64                       `json:"wall_s"`
	Completed      int64                         `json:"completed_paths"`
	Pruned         int64                         `json:"pruned_paths"`
	Forks          int64                         `json:"forks"`
	SolverDecided  int64                         `json:"solver_decided_sides"`
	UnsatPruned    int64                         `json:"unsat_pruned_sides"`
	UnknownKept    int64                         `json:"unknown_kept_sides"`
	CacheHits      int64                         `json:"sides_decided_from_cached_unsat"`
	CrossChecked   int64                         `json:"unsat_cross_checked"`
	CrossDisagree  int64                         `json:"unsat_cross_disagreements"`
	PathsRechecked int64                         `json:"paths_final_pc_rechecked_sat"`
	FreshRetries   int64                         `json:"fresh_solver_retries"`
	FreshDecided   int64                         `json:"fresh_solver_decided"`
	SessionRestart int64                         `json:"solver_sessions_restarted"`
	SolverErrors   int64                         `json:"solver_error_answers"`
	AssertsChecked int64                         `json:"asserts_symbolic"`
	AssertsConc    int64                         `json:"asserts_concrete"`
	Queries        int64                         `json:"queries"`
	SolverS        float64                       `json:"solver_s"`
	Steps          int64                         `json:"ssa_steps"`
	MapRangesFixed int64                         `json:"map_ranges_insertion_order"`
	MapRangesPerm  int64                         `json:"map_ranges_all_orders"`
	Violations     map[string][]interp.Violation `json:"violations"`
	ViolationCount map[string]int64              `json:"violation_count"`
	Inconclusive   []string                      `json:"inconclusive"`
	Samples        []interp.Sample               `json:"samples"`
	Funcs          map[string]int                `json:"functions_encoded"`
	FuncCalls      map[string]int64              `json:"function_calls"`
	Intrinsics     map[string]int64              `json:"intrinsics_hit"`
	Stubs          map[string]int64              `json:"stubs_hit"`
	StepBudget     int64                         `json:"step_budget"`
	Params         map[string]int64              `json:"params"`
	PathBudget     int64                         `json:"path_budget"`
}

func main() {
	repo := flag.String("repo", "/repo", "repository root")
	pkgDir := flag.String("pkg", "", "package directory relative to repo (harness is injected there)")
	harness := flag.String("harness", "", "comma-separated harness source files to inject")
	entry := flag.String("entry", "", "harness function name")
	out := flag.String("out", "", "result JSON file")
	workers := flag.Int("workers", 16, "worker goroutines / solver processes")
	solver := flag.String("solver", "z3", "z3 | z3new | cvc5")
	sampleEvery := flag.Int("sample-every", 0, "keep every k-th completed path as a replay sample")
	maxSamples := flag.Int("max-samples", 40, "")
	stepBudget := flag.Int64("step-budget", 5_000_000, "SSA instructions per path")
	pathBudget := flag.Int64("path-budget", 5_000_000, "paths per exploration")
	qtimeout := flag.Int("query-timeout-ms", 5000, "")
	deadline := flag.Int("deadline-s", 0, "wall clock limit for the exploration (0 = none)")
	maxViol := flag.Int("max-violations", 3, "stored per assertion id")
	dumpDir := flag.String("dump-unknown", "", "directory for transcripts of queries answered unknown")
	verifyUnsat := flag.Int("verify-unsat-every", 0, "cross-check every k-th unsat-pruned side with z3 5.1.0 and cvc5")
	prefixStr := flag.String("prefix", "", "comma-separated decision prefix to start from")
	single := flag.Bool("single", false, "follow a single path (debugging)")
	trace := flag.Bool("trace", false, "print function entries (debugging)")
	paramStr := flag.String("params", "", "comma-separated NAME=int harness parameters (ndParam)")
	flag.Parse()
	params := map[string]int64{}
	for _, kv := range strings.Split(*paramStr, ",") {
		if kv == "" {
			continue
		}
		var k string
		var v int64
		if i := strings.IndexByte(kv, '='); i > 0 {
			k = kv[:i]
			fmt.Sscan(kv[i+1:], &v)
			params[k] = v
		}
	}

	t0 := time.Now()
	overlay := map[string][]byte{}
	var modPath = "go.uber.org/nilaway"
	pkgPath := modPath
	if *pkgDir != "" && *pkgDir != "." {
		pkgPath = modPath + "/" + *pkgDir
	}
	stubNames := map[string]string{}
	var inits []string
	type fileDirs struct {
		stubs map[string]string
		inits []string
		uses  []string
	}
	perFile := map[string]*fileDirs{}
	for _, h := range strings.Split(*harness, ",") {
		if h == "" {
			continue
		}
		dir := *pkgDir
		hp := pkgPath
		if i := strings.Index(h, "::"); i >= 0 {
			// "pkgdir::file": inject into another package directory
			dir, h = h[:i], h[i+2:]
			hp = modPath + "/" + dir
		}
		src, err := os.ReadFile(h)
		if err != nil {
			fatal(err)
		}
		overlay[interp.OverlayPath(*repo, dir, filepath.Base(h))] = src
		s, in := interp.Directives(src, hp)
		fd := &fileDirs{stubs: s, inits: in}
		for _, mm := range useRe.FindAllSubmatch(src, -1) {
			fd.uses = append(fd.uses, string(mm[1]))
		}
		perFile[filepath.Base(h)] = fd
	}
	ld, err := interp.Load(*repo, []string{pkgPath}, overlay)
	if err != nil {
		fatal(err)
	}
	fn, err := ld.FindFunc(pkgPath + "." + *entry)
	if err != nil {
		fatal(err)
	}
	// directives are scoped: those of the file that defines the entry, plus files it names with //verif:use
	entryFile := filepath.Base(ld.Prog.Fset.Position(fn.Pos()).Filename)
	seenFiles := map[string]bool{}
	var collect func(f string)
	collect = func(f string) {
		if seenFiles[f] {
			return
		}
		seenFiles[f] = true
		fd := perFile[f]
		if fd == nil {
			fatal(fmt.Errorf("//verif:use names %s which is not among the harness files", f))
		}
		for k, v := range fd.stubs {
			stubNames[k] = v
		}
		inits = append(inits, fd.inits...)
		for _, u := range fd.uses {
			collect(u)
		}
	}
	collect(entryFile)
	stubs, err := ld.ResolveStubs(stubNames)
	if err != nil {
		fatal(err)
	}
	loadS := time.Since(t0).Seconds()
	var spec interp.SolverSpec
	switch *solver {
	case "z3":
		spec = interp.SolverZ3
	case "z3new":
		spec = interp.SolverZ3New
	case "cvc5":
		spec = interp.SolverCVC5
	default:
		fatal(fmt.Errorf("unknown solver %s", *solver))
	}
	cfg := interp.Config{
		Prog: ld.Prog, Entry: fn, Workers: *workers, Solver: spec, QueryTimeoutMs: *qtimeout,
		StepBudget: *stepBudget, PathBudget: *pathBudget, MaxViolations: *maxViol,
		SampleEvery: *sampleEvery, MaxSamples: *maxSamples, Stubs: stubs, InitPkgs: inits, Params: params, DumpDir: *dumpDir,
	}
	for _, d := range strings.Split(*prefixStr, ",") {
		d = strings.TrimSpace(d)
		if d == "" {
			continue
		}
		var v int32
		fmt.Sscan(d, &v)
		cfg.Prefix = append(cfg.Prefix, v)
	}
	cfg.Single = *single
	cfg.VerifyUnsatEvery = *verifyUnsat
	cfg.Trace = *trace
	if *deadline > 0 {
		cfg.Deadline = time.Now().Add(time.Duration(*deadline) * time.Second)
	}
	res := interp.Explore(cfg)
	o := output{
		Entry: pkgPath + "." + *entry, Solver: spec.Name, Workers: *workers, LoadS: loadS, WallS: res.Wall.Seconds(),
		Completed: res.Completed, Pruned: res.Pruned, Forks: res.Forks, SolverDecided: res.SolverDecided,
		UnsatPruned: res.UnsatPruned, UnknownKept: res.UnknownKept, CacheHits: res.CacheHits, CrossChecked: res.CrossChecked, CrossDisagree: res.CrossDisagree, PathsRechecked: res.PathsRechecked, FreshRetries: res.FreshRetries, FreshDecided: res.FreshDecided, SessionRestart: res.SolverHangs, SolverErrors: res.SolverErrors, AssertsChecked: res.AssertsChecked,
		AssertsConc: res.AssertsConc, Queries: res.Queries, SolverS: float64(res.SolverNanos) / 1e9,
		Steps: res.Steps, MapRangesFixed: res.MapRangesFixed, MapRangesPerm: res.MapRangesPerm,
		Violations: res.Violations, ViolationCount: res.ViolationCount, Inconclusive: res.Inconclusive,
		Samples: res.Samples, Funcs: ld.InstrCount(res.Funcs), FuncCalls: res.Funcs, Intrinsics: res.Intrinsics,
		Stubs: res.StubsHit, StepBudget: *stepBudget, PathBudget: *pathBudget, Params: params,
	}
	sort.Slice(o.Samples, func(a, b int) bool { return fmt.Sprint(o.Samples[a].Decisions) < fmt.Sprint(o.Samples[b].Decisions) })
	data, _ := json.MarshalIndent(o, "", " ")
	if *out != "" {
		if err := os.WriteFile(*out, data, 0o644); err != nil {
			fatal(err)
		}
	}
	nviol := 0
	for _, c := range res.ViolationCount {
		nviol += int(c)
	}
	fmt.Printf("symx %s: paths=%d pruned=%d forks=%d queries=%d asserts=%d+%d violations=%d inconclusive=%d wall=%.1fs (load %.1fs)\n",
		*entry, res.Completed, res.Pruned, res.Forks, res.Queries, res.AssertsChecked, res.AssertsConc, nviol, len(res.Inconclusive), res.Wall.Seconds(), loadS)
	for _, m := range res.Inconclusive {
		fmt.Println("  INCONCLUSIVE:", m)
	}
	for id, c := range res.ViolationCount {
		fmt.Printf("  violation %s x%d\n", id, c)
	}
	switch {
	case len(res.Inconclusive) > 0:
		os.Exit(2)
	case nviol > 0:
		os.Exit(1)
	}
}

var useRe = regexp.MustCompile(`(?m)^//verif:use\s+(\S+)\s*$`)

func fatal(err error) {
	fmt.Fprintln(os.Stderr, "symx:", err)
	os.Exit(3)
}
