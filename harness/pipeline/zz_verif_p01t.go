package accumulation

// P01T: the same call expression evaluated twice (C01, direct calls whose callee writes a package-level pointer).
// The callee reads and possibly rewrites the package-level pointer g; the caller nil-checks the result of one call
// and dereferences the result of the same or of another call:
//
//	var g *int [= new(int)]
//	func take() *int { r := g; if calleeflag { g = nil }; return r }       (callee 0: hands g out, may clear it)
//	func take() *int { if g == nil { g = new(int); return nil }; return g } (callee 1: nil once, then allocated)
//	func take() *int { return g }                                           (callee 2: no side effect)
//	func Entry() { if take() != nil { _ = *take() } }                       (caller 0) ...
//
// The oracle runs the calls in order over (g is nil) as an SMT term in the opaque flag; the solver is asked
// whether a flag value makes the dereference hit nil while nothing is reported.
// NilAway treats `take()` in a guard and `take()` in the dereference as the same stable expression (calls are assumed
// idempotent), so the guarded double call over a side-effecting callee is a recorded known finding (class tag).

//verif:use zz_verif_pipe.go

import "strings"

func Harness_P01T() {
	callee := ndChoice("callee", 3)
	gInitNil := ndChoice("g_initially_nil", 2) == 1
	caller := ndChoice("caller", 5)
	flag := ndBool("calleeflag")

	var b strings.Builder
	line := 0
	emit := func(s string) int { b.WriteString(s + "\n"); line++; return line }
	emit("package p")
	emit("")
	emit("var calleeflag bool")
	if gInitNil {
		emit("var g *int")
	} else {
		emit("var g *int = new(int)")
	}
	emit("")
	switch callee {
	case 0:
		emit("func take() *int {")
		emit("\tr := g")
		emit("\tif calleeflag {")
		emit("\t\tg = nil")
		emit("\t}")
		emit("\treturn r")
		emit("}")
	case 1:
		emit("func take() *int {")
		emit("\tif g == nil {")
		emit("\t\tg = new(int)")
		emit("\t\treturn nil")
		emit("\t}")
		emit("\treturn g")
		emit("}")
	default:
		emit("func take() *int {")
		emit("\treturn g")
		emit("}")
	}
	emit("")
	// one call: the returned nil-ness and the new state
	gNil := gInitNil
	call := func() bool {
		ret := gNil
		switch callee {
		case 0:
			gNil = ndOr(flag, gNil)
		case 1:
			gNil = false
		}
		return ret
	}
	emit("func Entry() {")
	var hits bool
	derefLine := 0
	twice := false
	switch caller {
	case 0:
		emit("\tif take() != nil {")
		derefLine = emit("\t\t_ = *take()")
		emit("\t}")
		first := call()
		second := call()
		hits = ndAnd(ndNot(first), second)
		twice = true
	case 1:
		emit("\tif v := take(); v != nil {")
		derefLine = emit("\t\t_ = *v")
		emit("\t}")
		call()
		hits = false
	case 2:
		derefLine = emit("\t_ = *take()")
		hits = call()
	case 3:
		emit("\tif take() == nil {")
		emit("\t\treturn")
		emit("\t}")
		derefLine = emit("\t_ = *take()")
		first := call()
		second := call()
		hits = ndAnd(ndNot(first), second)
		twice = true
	default:
		emit("\tx := take()")
		emit("\tif take() != nil {")
		derefLine = emit("\t\t_ = *x")
		emit("\t}")
		first := call()
		second := call()
		hits = ndAnd(first, ndNot(second))
	}
	emit("}")
	src := b.String()
	ndObserveStr("source", src)

	class := ""
	if twice && callee != 2 {
		class = "[guard_and_dereference_call_a_side_effecting_callee_separately]"
	}
	r := pipeAnalyse(src)
	ndObserveInt("diagnostics", len(r.diags))
	internal := r.panicked != "" || len(r.funcErrs) > 0
	for _, d := range r.diags {
		ndObserveStr("diag", d.Message)
		if strings.Contains(d.Message, "INTERNAL") {
			internal = true
		}
	}
	ndAssert("P01.A4.no_internal_failure", !internal)
	reported := len(r.diags) > 0
	ndAssert("P01.A1.a_reachable_nil_dereference_is_reported"+class, ndImplies(hits, reported))
	ndAssert("P01.A3.the_only_unchecked_dereference_is_reported_at_its_line"+class, ndImplies(hits, r.lines()[derefLine]))
}
