#!/usr/bin/env python3
"""Fill what_changes / what_it_needs_to_manifest of every seeded/<name>/meta.json from the sub-agent's README
sections ("The change", "What is needed to see it") and print the summary table used in DESIGN.md section 9."""
import json, os, re, sys
VERIF = os.path.dirname(os.path.dirname(os.path.abspath(__file__)))
rows = []
for name in sorted(os.listdir(os.path.join(VERIF, "seeded"))):
    d = os.path.join(VERIF, "seeded", name)
    mp = os.path.join(d, "meta.json")
    if not os.path.exists(mp):
        continue
    meta = json.load(open(mp))
    readme = open(os.path.join(d, "README.md")).read() if os.path.exists(os.path.join(d, "README.md")) else ""
    secs = {}
    cur = None
    for line in readme.splitlines():
        m = re.match(r"^##\s+(.*)", line)
        if m:
            cur = m.group(1).lower()
            secs[cur] = []
        elif cur:
            secs[cur].append(line)
    def sec(prefix):
        for k, v in secs.items():
            if k.startswith(prefix):
                return " ".join(" ".join(v).split())
        return ""
    title = readme.splitlines()[0].lstrip("# ").strip() if readme else ""
    meta["title"] = title
    meta["what_changes"] = sec("the change")[:1500] or title
    meta["what_it_needs_to_manifest"] = sec("what is needed to see it")[:2500] or "see README.md"
    files = sorted(set(re.findall(r"^\+\+\+ b/(\S+)", open(os.path.join(d, "patch.diff")).read(), re.M)))
    meta["files_changed"] = files
    json.dump(meta, open(mp, "w"), indent=1)
    det = meta.get("detected_by", [])
    how = []
    for cid, c in meta.get("checks", {}).items():
        for l in c.get("lines", []):
            m = re.search(r"violation (\S+)", l)
            if m and c.get("exit") == 1:
                how.append(m.group(1))
    rows.append((name, title, ", ".join(files), ", ".join(det) or "-", "; ".join(sorted(set(how)))[:300]))
for r in rows:
    print("| " + " | ".join(r) + " |")
