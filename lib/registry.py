"""Per-property registration of symx harness runs (see DESIGN.md section 4)."""

COMMON_ASSUMPTIONS = [
    "int/uint/uintptr are 64-bit two's-complement bit-vectors (as on the build host)",
    "symbolic strings are printable ASCII of the stated maximum length",
    "single-threaded execution; package initialisers are run only for packages named by //verif:init",
    "std-lib leaf functions listed in coverage.trusted_base behave as documented",
]

PROPERTIES = {}

PROPERTIES["C19"] = dict(
    explanation="symx executes tokenhelper.Converse/Inverse from the SSA of /repo's working tree with a symbolic token and symbolic operands; "
                "every switch arm is a solver-decided fork and every assertion is one (check-sat pc ∧ ¬A) query over all operand values.",
    bounds=dict(quick="token in 0..127 (all go/token values); operands: all int64 pairs, all uint64 pairs, ASCII strings of length <= 6",
                thorough="same; string length <= 10"),
    outside=["floating-point operands (NaN breaks inverse for ordered comparisons in Go itself; NilAway only rewrites nil/len/int comparisons)"],
    exhaustive=True,
    assumptions=COMMON_ASSUMPTIONS,
    runs=[
        dict(pkg="util/tokenhelper", files=["util_tokenhelper/zz_verif_c19.go"], entry="Harness_C19_K1_int", args=dict(sample_every=7)),
        dict(pkg="util/tokenhelper", files=["util_tokenhelper/zz_verif_c19.go"], entry="Harness_C19_K1_uint", args=dict(sample_every=7)),
        dict(pkg="util/tokenhelper", files=["util_tokenhelper/zz_verif_c19.go"], entry="Harness_C19_K1_string", args=dict(sample_every=7)),
    ],
)

PROPERTIES["C12"] = dict(
    explanation="symx executes (*Config).IsPkgInScope, config.run (flag parsing into the lists), (*Config).IsFileInScope and asthelper.DocContains from SSA; "
                "prefix lists, package path, comment texts and positions are symbolic; each loop iteration's HasPrefix/Contains is a solver-decided fork and the "
                "result on every path is compared with the flat specification formula by one query.",
    bounds=dict(quick="<=2 include and <=2 exclude prefixes, strings <=6 chars; 7x7 concrete flag texts; <=2 comment groups (symbolic text <=6 chars, optionally followed by / replaced by the templ marker), <=2 exclude docstrings (<=6 chars)",
                thorough="<=3 include and <=3 exclude prefixes, strings <=8 chars; <=3 comment groups, <=2 exclude docstrings"),
    outside=["that out-of-scope files contribute no sites inside the whole-package AST walks of each sub-analyzer",
             "NoLintAnalyzer exports its fact regardless of scope (not among the facts the statement lists)",
             "multi-line / block comments and //go: directives in (*ast.CommentGroup).Text (std lib)"],
    assumptions=COMMON_ASSUMPTIONS + ["file.Comments is sorted by position (go/parser guarantees it)",
                                      "(*ast.CommentGroup).Text of one //-line comment without leading/trailing blank or ':' is the text plus a newline (validated natively on sampled paths)"],
    runs=[
        dict(pkg="config", files=["config/zz_verif_c12.go"], entry="Harness_C12_K1",
             quick=dict(params=dict(NI=2, NE=2, STRLEN=6)), thorough=dict(params=dict(NI=3, NE=3, STRLEN=8)), args=dict(sample_every=11)),
        dict(pkg="config", files=["config/zz_verif_c12.go"], entry="Harness_C12_K1b", args=dict(sample_every=9)),
        dict(pkg="config", files=["config/zz_verif_c12.go"], entry="Harness_C12_K2",
             quick=dict(params=dict(NG=2, NX=2)), thorough=dict(params=dict(NG=3, NX=2)), args=dict(sample_every=5)),
    ],
)

INFER_FILES = ["inference/zz_verif_c05.go", "inference/zz_verif_c05l2.go", "inference/zz_verif_registry.go"]

PROPERTIES["C05"] = dict(
    explanation="symx executes the inference engine's own observe* functions (L1) and ObservePackage/buildPkgInferenceMap/buildFromSingleFullTrigger on real FullTrigger values (L2) "
                "from SSA. Constraint kinds are concrete choices; the sites they mention are symbolic integers, so every map-key comparison inside the engine is a solver-decided fork "
                "and one path stands for all site assignments with that equality pattern. The oracle (reachability closure / least fixpoint with controlled constraints) is one SMT term; "
                "each assertion is a (check-sat pc ∧ ¬A) query.",
    bounds=dict(quick="L1: <=3 constraints over 3 sites (5 kinds incl. annotations); L2: <=3 triggers/annotations over 2x2 sites (8 kinds incl. controlled triggers)",
                thorough="L1: <=4 constraints over 4 sites and <=5 over 3; L2: <=4 triggers over 2x2 sites"),
    outside=["constraint graphs beyond the bound (the property text's 'randomly beyond the bound' is a different technique and is not done)",
             "how triggers are produced from programs (assertion tree)", "gob codec (see C06)"],
    assumptions=COMMON_ASSUMPTIONS + ["L2 stubs primitivizer.site/fullTrigger: site identity = (key kind, object position, isDeep); validated against the real functions by native replay of sampled paths",
                                      "precondition from duplicateFullTrigger: the consumer site of a controlled trigger is never a call-site parameter site"],
    runs=[
        dict(pkg="inference", files=INFER_FILES, entry="Harness_C05_L1",
             quick=dict(params=dict(S=3, N=3)), thorough=dict(params=dict(S=4, N=4)), args=dict(sample_every=101)),
        dict(pkg="inference", files=INFER_FILES, entry="Harness_C05_L2",
             quick=dict(params=dict(S=2, N=3)), thorough=dict(params=dict(S=2, N=4)), args=dict(sample_every=997)),
    ],
)
