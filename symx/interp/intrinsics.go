// Standard-library leaves executed natively (concrete) or as SMT terms (symbolic).
// Every entry is part of the trusted base and is reported in the evidence when hit.

package interp

import (
	"fmt"
	"go/token"
	"go/types"
	"sort"
	"strconv"
	"strings"
	"unicode"
	"unicode/utf8"

	"golang.org/x/tools/go/ssa"
)

// Key strings are from Function.String().
var externals = map[string]externalFn{}

func str(v value) (string, bool) { s, ok := v.(string); return s, ok }

func mustStr(name string, v value) string {
	s, ok := v.(string)
	if !ok {
		panic(engineError{fmt.Sprintf("%s: symbolic or non-string argument %T not supported", name, v)})
	}
	return s
}

func strSlice(v value) []string {
	xs := v.([]value)
	out := make([]string, len(xs))
	for k, x := range xs {
		out[k] = mustStr("[]string element", x)
	}
	return out
}

func fromStrs(xs []string) value {
	if xs == nil {
		return []value(nil)
	}
	out := make([]value, len(xs))
	for k, x := range xs {
		out[k] = x
	}
	return out
}

func strFn1(name string, f func(string) string) externalFn {
	return func(fr *frame, a []value) value { return f(mustStr(name, a[0])) }
}

func strFn2(name string, f func(string, string) string) externalFn {
	return func(fr *frame, a []value) value { return f(mustStr(name, a[0]), mustStr(name, a[1])) }
}

// strPred2 builds a two-string predicate with a symbolic form.
func strPred2(name string, f func(string, string) bool, smt func(a, b string) string) externalFn {
	return func(fr *frame, a []value) value {
		x, okx := str(a[0])
		y, oky := str(a[1])
		if okx && oky {
			return f(x, y)
		}
		if smt == nil {
			panic(engineError{name + ": symbolic arguments not supported"})
		}
		return symBool(smt(fr.i.nmt(a[0]), fr.i.nmt(a[1])))
	}
}

func init() {
	ext := map[string]externalFn{
		"strings.HasPrefix": strPred2("strings.HasPrefix", strings.HasPrefix, func(s, p string) string { return "(str.prefixof " + p + " " + s + ")" }),
		"strings.HasSuffix": strPred2("strings.HasSuffix", strings.HasSuffix, func(s, p string) string { return "(str.suffixof " + p + " " + s + ")" }),
		"strings.Contains":  strPred2("strings.Contains", strings.Contains, func(s, p string) string { return "(str.contains " + s + " " + p + ")" }),
		"strings.EqualFold": strPred2("strings.EqualFold", strings.EqualFold, nil),
		"strings.Index": func(fr *frame, a []value) value {
			x, okx := str(a[0])
			y, oky := str(a[1])
			if okx && oky {
				return strings.Index(x, y)
			}
			return sym{types.Int, "((_ int2bv 64) (str.indexof " + fr.i.nmt(a[0]) + " " + fr.i.nmt(a[1]) + " 0))"}
		},
		"strings.IndexByte": func(fr *frame, a []value) value {
			return strings.IndexByte(mustStr("strings.IndexByte", a[0]), a[1].(byte))
		},
		"strings.LastIndex": func(fr *frame, a []value) value {
			return strings.LastIndex(mustStr("strings.LastIndex", a[0]), mustStr("strings.LastIndex", a[1]))
		},
		"strings.LastIndexByte": func(fr *frame, a []value) value {
			return strings.LastIndexByte(mustStr("strings.LastIndexByte", a[0]), a[1].(byte))
		},
		"strings.IndexRune": func(fr *frame, a []value) value {
			return strings.IndexRune(mustStr("strings.IndexRune", a[0]), a[1].(rune))
		},
		"strings.ContainsRune": func(fr *frame, a []value) value {
			return strings.ContainsRune(mustStr("strings.ContainsRune", a[0]), a[1].(rune))
		},
		"strings.ContainsAny": func(fr *frame, a []value) value {
			return strings.ContainsAny(mustStr("strings.ContainsAny", a[0]), mustStr("strings.ContainsAny", a[1]))
		},
		"strings.Count": func(fr *frame, a []value) value {
			return strings.Count(mustStr("strings.Count", a[0]), mustStr("strings.Count", a[1]))
		},
		"strings.Split": func(fr *frame, a []value) value {
			return fromStrs(strings.Split(mustStr("strings.Split", a[0]), mustStr("strings.Split", a[1])))
		},
		"strings.SplitN": func(fr *frame, a []value) value {
			return fromStrs(strings.SplitN(mustStr("strings.SplitN", a[0]), mustStr("strings.SplitN", a[1]), int(asInt64(a[2]))))
		},
		"strings.Fields": func(fr *frame, a []value) value { return fromStrs(strings.Fields(mustStr("strings.Fields", a[0]))) },
		"strings.Join": func(fr *frame, a []value) value {
			xs := a[0].([]value)
			sep := a[1]
			anySym := isSym(sep)
			for _, x := range xs {
				if isSym(x) {
					anySym = true
				}
			}
			if !anySym {
				return strings.Join(strSlice(a[0]), sep.(string))
			}
			if len(xs) == 0 {
				return ""
			}
			if len(xs) == 1 {
				return xs[0]
			}
			parts := []string{}
			for k, x := range xs {
				if k > 0 {
					parts = append(parts, fr.i.nmt(sep))
				}
				parts = append(parts, fr.i.nmt(x))
			}
			return sym{types.String, "(str.++ " + strings.Join(parts, " ") + ")"}
		},
		"strings.TrimSpace":  strFn1("strings.TrimSpace", strings.TrimSpace),
		"strings.ToLower":    strFn1("strings.ToLower", strings.ToLower),
		"strings.ToUpper":    strFn1("strings.ToUpper", strings.ToUpper),
		"strings.Title":      strFn1("strings.Title", strings.Title),
		"strings.TrimPrefix": strFn2("strings.TrimPrefix", strings.TrimPrefix),
		"strings.TrimSuffix": strFn2("strings.TrimSuffix", strings.TrimSuffix),
		"strings.TrimLeft":   strFn2("strings.TrimLeft", strings.TrimLeft),
		"strings.TrimRight":  strFn2("strings.TrimRight", strings.TrimRight),
		"strings.Trim":       strFn2("strings.Trim", strings.Trim),
		"strings.Repeat": func(fr *frame, a []value) value {
			return strings.Repeat(mustStr("strings.Repeat", a[0]), int(asInt64(a[1])))
		},
		"strings.Replace": func(fr *frame, a []value) value {
			return strings.Replace(mustStr("strings.Replace", a[0]), mustStr("strings.Replace", a[1]), mustStr("strings.Replace", a[2]), int(asInt64(a[3])))
		},
		"strings.ReplaceAll": func(fr *frame, a []value) value {
			return strings.ReplaceAll(mustStr("strings.ReplaceAll", a[0]), mustStr("strings.ReplaceAll", a[1]), mustStr("strings.ReplaceAll", a[2]))
		},
		"strings.Cut": func(fr *frame, a []value) value {
			b, c, ok := strings.Cut(mustStr("strings.Cut", a[0]), mustStr("strings.Cut", a[1]))
			return tuple{b, c, ok}
		},
		"strings.Compare": func(fr *frame, a []value) value {
			x, okx := str(a[0])
			y, oky := str(a[1])
			if okx && oky {
				return strings.Compare(x, y)
			}
			tx, ty := fr.i.nmt(a[0]), fr.i.nmt(a[1])
			return sym{types.Int, "(ite (= " + tx + " " + ty + ") " + bvLit(0, 64) + " (ite (str.< " + tx + " " + ty + ") " + bvLit(^uint64(0), 64) + " " + bvLit(1, 64) + "))"}
		},
		"strconv.Itoa": func(fr *frame, a []value) value {
			if s, ok := a[0].(sym); ok {
				return sym{types.String, fr.i.symItoa(fr.i.nm(s.kind, s.t), s.kind)}
			}
			return strconv.Itoa(int(asInt64(a[0])))
		},
		"strconv.Quote": strFn1("strconv.Quote", strconv.Quote),
		"strconv.Atoi": func(fr *frame, a []value) value {
			n, err := strconv.Atoi(mustStr("strconv.Atoi", a[0]))
			if err != nil {
				return tuple{0, fr.i.newError(err.Error())}
			}
			return tuple{n, iface{}}
		},
		"strconv.FormatInt": func(fr *frame, a []value) value { return strconv.FormatInt(asInt64(a[0]), int(asInt64(a[1]))) },

		"fmt.Sprintf": func(fr *frame, a []value) value { return fr.i.sprintf(a[0], a[1].([]value)) },
		"fmt.Sprint":  func(fr *frame, a []value) value { return fr.i.sprint(a[0].([]value)) },
		"fmt.Errorf":  func(fr *frame, a []value) value { return fr.i.errorf(a[0], a[1].([]value)) },
		// Fprintf / Fprint into a *strings.Builder (the only writer the analysed code formats into): the formatted
		// text is appended to the builder's side table; any other writer fails closed
		"fmt.Fprintf": func(fr *frame, a []value) value {
			w, ok := a[0].(iface)
			if !ok || w.t == nil || w.t.String() != "*strings.Builder" {
				panic(engineError{"fmt.Fprintf into a writer other than *strings.Builder"})
			}
			s := fr.i.sprintf(a[1], a[2].([]value))
			b := fr.i.builder(w.v)
			if sv, ok := s.(sym); ok {
				*b = append(*b, piece{s: fr.i.nm(sv.kind, sv.t), sym: true})
				return tuple{symLen(sv), iface{}}
			}
			*b = append(*b, piece{s: s.(string)})
			return tuple{len(s.(string)), iface{}}
		},
		"errors.Is": func(fr *frame, a []value) value { return fr.i.errorsIs(a[0].(iface), a[1].(iface)) },
		// reflection is not modelled: TypeOf yields the nil reflect.Type. The analyzers only store it in
		// analysis.Analyzer.ResultType (read by drivers, which are not executed); any use of the value is a
		// nil-interface method call, i.e. a panic that the native replay will not confirm (fails closed).
		"reflect.TypeOf": func(fr *frame, a []value) value { return iface{} },
		// hash/maphash.Comparable (runtime memhash underneath): any deterministic function of the value is a valid hash; pointers
		// are numbered in order of first use on the path, everything else is hashed through its printed form (FNV-1a)
		"hash/maphash.Comparable": func(fr *frame, a []value) value {
			i := fr.i
			if p, ok := a[1].(*value); ok {
				if i.ptrIDs == nil {
					i.ptrIDs = map[*value]uint64{}
				}
				id, seen := i.ptrIDs[p]
				if !seen {
					id = uint64(len(i.ptrIDs)+1) * 0x9e3779b97f4a7c15
					i.ptrIDs[p] = id
				}
				return id
			}
			h := uint64(14695981039346656037)
			for _, c := range []byte(fmt.Sprintf("%T:%v", a[1], a[1])) {
				h = (h ^ uint64(c)) * 1099511628211
			}
			return h
		},
		// the process environment is empty
		"os.Getenv":    func(fr *frame, a []value) value { return "" },
		"os.LookupEnv": func(fr *frame, a []value) value { return tuple{"", false} },

		"(*sync.Mutex).Lock":      nop,
		"(*sync.Mutex).Unlock":    nop,
		"(*sync.Mutex).TryLock":   func(fr *frame, a []value) value { return true },
		"(*sync.RWMutex).Lock":    nop,
		"(*sync.RWMutex).Unlock":  nop,
		"(*sync.RWMutex).RLock":   nop,
		"(*sync.RWMutex).RUnlock": nop,
		// sync.Pool is a cache: Get always makes a new object, Put drops it
		"(*sync.Pool).Put": nop,
		"(*sync.Pool).Get": func(fr *frame, a []value) value {
			pool := (*a[0].(*value)).(structure)
			newFn := pool[len(pool)-1] // the New field is the last one
			if newFn == nil {
				return iface{}
			}
			if c, ok := newFn.(*closure); ok && c == nil {
				return iface{}
			}
			if f, ok := newFn.(*ssa.Function); ok && f == nil {
				return iface{}
			}
			return call(fr.i, fr.caller, token.NoPos, newFn, nil)
		},
		"(*sync.Once).Do": func(fr *frame, a []value) value {
			i := fr.i
			if i.onceDone == nil {
				i.onceDone = map[*value]bool{}
			}
			key := a[0].(*value)
			if i.onceDone[key] {
				return nil
			}
			i.onceDone[key] = true
			call(i, fr.caller, 0, a[1], nil)
			return nil
		},
		"(*sync.WaitGroup).Add":  unsupported("sync.WaitGroup"),
		"(*sync.WaitGroup).Wait": unsupported("sync.WaitGroup"),

		// sync/atomic on the executor's boxed cells (single-threaded: plain loads and stores)
		"(*sync/atomic.Pointer[T]).Store": func(fr *frame, a []value) value {
			(*a[0].(*value)).(structure)[atomicPtrField(a[0])] = a[1]
			return nil
		},
		"(*sync/atomic.Pointer[T]).Load": func(fr *frame, a []value) value {
			v := (*a[0].(*value)).(structure)[atomicPtrField(a[0])]
			if p, ok := v.(*value); ok {
				return p
			}
			return (*value)(nil)
		},
		"(*sync/atomic.Pointer[T]).CompareAndSwap": func(fr *frame, a []value) value {
			s := (*a[0].(*value)).(structure)
			k := atomicPtrField(a[0])
			cur, _ := s[k].(*value)
			if cur == a[1].(*value) {
				s[k] = a[2]
				return true
			}
			return false
		},
		"sync/atomic.LoadInt32":   atomicLoad,
		"sync/atomic.LoadInt64":   atomicLoad,
		"sync/atomic.LoadUint32":  atomicLoad,
		"sync/atomic.LoadUint64":  atomicLoad,
		"sync/atomic.StoreInt32":  atomicStore,
		"sync/atomic.StoreInt64":  atomicStore,
		"sync/atomic.StoreUint32": atomicStore,
		"sync/atomic.StoreUint64": atomicStore,
		"sync/atomic.AddInt32":    atomicAdd,
		"sync/atomic.AddInt64":    atomicAdd,
		"sync/atomic.AddUint32":   atomicAdd,
		"sync/atomic.AddUint64":   atomicAdd,
		"sync/atomic.CompareAndSwapInt32": func(fr *frame, a []value) value {
			p := a[0].(*value)
			if fr.i.truth(fr.i.eqValue(nil, *p, a[1])) {
				*p = a[2]
				return true
			}
			return false
		},

		// strings.Builder (its real code uses unsafe): contents kept in a side table keyed by the receiver
		"(*strings.Builder).WriteString": func(fr *frame, a []value) value {
			b := fr.i.builder(a[0])
			if s, ok := a[1].(sym); ok {
				*b = append(*b, piece{s: fr.i.nm(s.kind, s.t), sym: true})
				return tuple{symLen(s), iface{}}
			}
			*b = append(*b, piece{s: a[1].(string)})
			return tuple{len(a[1].(string)), iface{}}
		},
		"(*strings.Builder).WriteByte": func(fr *frame, a []value) value {
			b := fr.i.builder(a[0])
			*b = append(*b, piece{s: string([]byte{a[1].(byte)})})
			return iface{}
		},
		"(*strings.Builder).WriteRune": func(fr *frame, a []value) value {
			b := fr.i.builder(a[0])
			s := string(a[1].(rune))
			*b = append(*b, piece{s: s})
			return tuple{len(s), iface{}}
		},
		"(*strings.Builder).Write": func(fr *frame, a []value) value {
			b := fr.i.builder(a[0])
			bs := a[1].([]value)
			buf := make([]byte, len(bs))
			for k, x := range bs {
				buf[k] = x.(byte)
			}
			*b = append(*b, piece{s: string(buf)})
			return tuple{len(buf), iface{}}
		},
		"(*strings.Builder).String": func(fr *frame, a []value) value { return joinPieces(*fr.i.builder(a[0])) },
		"(*strings.Builder).Len": func(fr *frame, a []value) value {
			n := 0
			for _, p := range *fr.i.builder(a[0]) {
				if p.sym {
					panic(engineError{"strings.Builder.Len with symbolic content"})
				}
				n += len(p.s)
			}
			return n
		},
		"(*strings.Builder).Grow":  nop,
		"(*strings.Builder).Reset": func(fr *frame, a []value) value { *fr.i.builder(a[0]) = nil; return nil },

		// internal/bytealg (assembly): concrete arguments only
		"internal/bytealg.IndexByteString": func(fr *frame, a []value) value {
			return strings.IndexByte(mustStr("bytealg.IndexByteString", a[0]), a[1].(byte))
		},
		"internal/bytealg.IndexString": func(fr *frame, a []value) value {
			return strings.Index(mustStr("bytealg.IndexString", a[0]), mustStr("bytealg.IndexString", a[1]))
		},
		"internal/bytealg.CountString": func(fr *frame, a []value) value {
			return strings.Count(mustStr("bytealg.CountString", a[0]), string([]byte{a[1].(byte)}))
		},
		"internal/bytealg.LastIndexByteString": func(fr *frame, a []value) value {
			return strings.LastIndexByte(mustStr("bytealg.LastIndexByteString", a[0]), a[1].(byte))
		},
		"internal/bytealg.IndexByte": func(fr *frame, a []value) value {
			for k, b := range a[0].([]value) {
				if b.(byte) == a[1].(byte) {
					return k
				}
			}
			return -1
		},
		"internal/stringslite.IndexByte": func(fr *frame, a []value) value {
			return strings.IndexByte(mustStr("stringslite.IndexByte", a[0]), a[1].(byte))
		},
		"internal/stringslite.Index": func(fr *frame, a []value) value {
			return strings.Index(mustStr("stringslite.Index", a[0]), mustStr("stringslite.Index", a[1]))
		},

		// GODEBUG settings: every setting has its default value
		"(*internal/godebug.Setting).Value":         func(fr *frame, a []value) value { return "" },
		"(*internal/godebug.Setting).IncNonDefault": nop,
		"(*internal/godebug.Setting).Name":          func(fr *frame, a []value) value { return "setting" },

		"runtime/debug.Stack": func(fr *frame, a []value) value {
			return []value{byte('s'), byte('t'), byte('a'), byte('c'), byte('k')}
		},
		"runtime.KeepAlive":  nop,
		"runtime.GOMAXPROCS": func(fr *frame, a []value) value { return 1 },
		"runtime.NumCPU":     func(fr *frame, a []value) value { return 1 },
		"os.Getwd":           func(fr *frame, a []value) value { return tuple{"/cwd", iface{}} },

		"go/token.IsExported": isExportedIntrinsic,
		"go/types.isExported": isExportedIntrinsic,
		"go/ast.IsExported":   isExportedIntrinsic,
		"unicode.IsUpper":     runePred(unicode.IsUpper),
		"unicode.IsLower":     runePred(unicode.IsLower),
		"unicode.IsLetter":    runePred(unicode.IsLetter),
		"unicode.IsDigit":     runePred(unicode.IsDigit),
		"unicode.IsSpace":     runePred(unicode.IsSpace),
		"unicode.IsGraphic":   runePred(unicode.IsGraphic),
		"unicode.IsPrint":     runePred(unicode.IsPrint),
		"unicode.IsControl":   runePred(unicode.IsControl),
		"unicode.IsPunct":     runePred(unicode.IsPunct),
		"unicode.IsSymbol":    runePred(unicode.IsSymbol),
		"unicode.IsMark":      runePred(unicode.IsMark),
		"unicode.IsNumber":    runePred(unicode.IsNumber),
		"unicode.IsTitle":     runePred(unicode.IsTitle),
		"unicode.ToUpper":     func(fr *frame, a []value) value { return unicode.ToUpper(a[0].(rune)) },
		"unicode.ToLower":     func(fr *frame, a []value) value { return unicode.ToLower(a[0].(rune)) },
		"unicode/utf8.DecodeRuneInString": func(fr *frame, a []value) value {
			r, n := utf8.DecodeRuneInString(mustStr("utf8.DecodeRuneInString", a[0]))
			return tuple{r, n}
		},
		"unicode/utf8.RuneCountInString": func(fr *frame, a []value) value {
			return utf8.RuneCountInString(mustStr("utf8.RuneCountInString", a[0]))
		},
		"unicode/utf8.ValidString": func(fr *frame, a []value) value { return utf8.ValidString(mustStr("utf8.ValidString", a[0])) },
		"unicode/utf8.RuneLen":     func(fr *frame, a []value) value { return utf8.RuneLen(a[0].(rune)) },

		"sort.Slice":       sortSlice(false),
		"sort.SliceStable": sortSlice(true),
		"sort.Strings": func(fr *frame, a []value) value {
			xs := a[0].([]value)
			ss := strSlice(a[0])
			sort.Strings(ss)
			for k := range xs {
				xs[k] = ss[k]
			}
			return nil
		},
		"sort.Ints": func(fr *frame, a []value) value {
			xs := a[0].([]value)
			sort.Slice(xs, func(p, q int) bool { return xs[p].(int) < xs[q].(int) })
			return nil
		},
		"path/filepath.Base": strFn1("filepath.Base", func(s string) string {
			if k := strings.LastIndexByte(s, '/'); k >= 0 && k < len(s)-1 {
				return s[k+1:]
			}
			return s
		}),
	}
	for k, v := range ext {
		externals[k] = v
	}
}

// isExportedIntrinsic: first rune is an upper-case letter (symbolic strings are ASCII by assumption).
func isExportedIntrinsic(fr *frame, a []value) value {
	if s, ok := a[0].(sym); ok {
		return symBool("(str.in_re " + fr.i.nm(s.kind, s.t) + " (re.++ (re.range \"A\" \"Z\") re.all))")
	}
	r, _ := utf8.DecodeRuneInString(a[0].(string))
	return unicode.IsUpper(r)
}

// builder returns the contents of the strings.Builder at address p.
func (i *interpreter) builder(p value) *[]piece {
	if i.builders == nil {
		i.builders = map[*value]*[]piece{}
	}
	key := p.(*value)
	if b, ok := i.builders[key]; ok {
		return b
	}
	b := &[]piece{}
	i.builders[key] = b
	return b
}

func atomicPtrField(p value) int {
	return len((*p.(*value)).(structure)) - 1 // the last field of atomic.Pointer[T] is the pointer word
}

func atomicLoad(fr *frame, a []value) value { return *a[0].(*value) }
func atomicStore(fr *frame, a []value) value {
	*a[0].(*value) = a[1]
	return nil
}
func atomicAdd(fr *frame, a []value) value {
	p := a[0].(*value)
	*p = fr.i.binop(token.ADD, nil, *p, a[1])
	return *p
}

func nop(fr *frame, a []value) value { return nil }

func unsupported(what string) externalFn {
	return func(fr *frame, a []value) value {
		panic(engineError{what + " is not supported (single-threaded executor) at " + fr.i.where()})
	}
}

func runePred(f func(rune) bool) externalFn {
	return func(fr *frame, a []value) value {
		r, ok := a[0].(rune)
		if !ok {
			panic(engineError{"unicode predicate on a symbolic rune"})
		}
		return f(r)
	}
}

// sortSlice implements sort.Slice / sort.SliceStable by calling the less
// closure through the executor. An insertion sort is used (stable), which is a
// legal behaviour of both functions.
func sortSlice(stable bool) externalFn {
	return func(fr *frame, a []value) value {
		itf := a[0].(iface)
		xs, ok := itf.v.([]value)
		if !ok {
			panic(engineError{"sort.Slice on a non-slice"})
		}
		less := a[1]
		i := fr.i
		// The less function indexes the slice itself, so elements must be moved in place.
		for p := 1; p < len(xs); p++ {
			for q := p; q > 0; q-- {
				if !i.truth(call(i, fr.caller, 0, less, []value{q, q - 1})) {
					break
				}
				xs[q], xs[q-1] = xs[q-1], xs[q]
			}
		}
		return nil
	}
}

// symItoa renders a symbolic integer in decimal. A harness variable with a small declared range
// (ndInt(lo,hi), hi-lo < 128) is rendered as an ite-chain over its values, which string solvers
// decide far more easily than str.from_int; the chain is exact under the range assumption that is
// already part of the path condition.
func (i *interpreter) symItoa(t string, k types.BasicKind) string {
	if r, ok := i.path.intRanges[t]; ok && r[1]-r[0] < 128 {
		w := bvWidth(k)
		out := smtString(strconv.FormatInt(r[1], 10))
		for v := r[1] - 1; v >= r[0]; v-- {
			out = "(ite (= " + t + " " + bvLit(uint64(v), w) + ") " + smtString(strconv.FormatInt(v, 10)) + " " + out + ")"
		}
		return i.nm(types.String, out)
	}
	return symItoa(t, k)
}

func symItoa(t string, k types.BasicKind) string {
	w := bvWidth(k)
	if !isSignedKind(k) {
		return "(str.from_int (bv2nat " + t + "))"
	}
	return "(ite (bvslt " + t + " " + bvLit(0, w) + ") (str.++ \"-\" (str.from_int (bv2nat (bvneg " + t + ")))) (str.from_int (bv2nat " + t + ")))"
}

// newError builds an *errors.errorString value.
func (i *interpreter) newError(msg value) value {
	pkg := i.prog.ImportedPackage("errors")
	if pkg == nil {
		panic(engineError{"package errors is not loaded"})
	}
	t := pkg.Type("errorString").Type()
	var cell value = structure{msg}
	return iface{t: types.NewPointer(t), v: &cell}
}

func (i *interpreter) errorf(format value, args []value) value {
	f := mustStr("fmt.Errorf format", format)
	msg := i.sprintf(strings.ReplaceAll(f, "%w", "%v"), args)
	if k := verbIndex(f, 'w'); k >= 0 && k < len(args) {
		if pkg := i.prog.ImportedPackage("fmt"); pkg != nil && pkg.Type("wrapError") != nil {
			t := pkg.Type("wrapError").Type()
			var cell value = structure{msg, args[k]}
			return iface{t: types.NewPointer(t), v: &cell}
		}
	}
	return i.newError(msg)
}

// verbIndex returns the argument index consumed by the first %<verb> in format, or -1.
func verbIndex(format string, verb byte) int {
	arg := 0
	for k := 0; k < len(format); k++ {
		if format[k] != '%' {
			continue
		}
		k++
		for k < len(format) && strings.IndexByte("+-# 0123456789.", format[k]) >= 0 {
			k++
		}
		if k >= len(format) {
			break
		}
		if format[k] == '%' {
			continue
		}
		if format[k] == verb {
			return arg
		}
		arg++
	}
	return -1
}

func (i *interpreter) errorsIs(err, target iface) value {
	for n := 0; n < 100; n++ {
		if err.t == nil {
			return target.t == nil
		}
		if sameType(err.t, target.t) {
			switch err.t.Underlying().(type) {
			case *types.Slice, *types.Map, *types.Signature:
			default:
				if i.truth(i.eqValue(err.t, err.v, target.v)) {
					return true
				}
			}
		}
		if m := i.lookupMethodByName(err.t, "Is"); m != nil {
			if i.truth(call(i, i.cur, 0, m, []value{err.v, target})) {
				return true
			}
		}
		m := i.lookupMethodByName(err.t, "Unwrap")
		if m == nil {
			return false
		}
		if m.Signature.Results().Len() != 1 {
			return false
		}
		r := call(i, i.cur, 0, m, []value{err.v})
		next, ok := r.(iface)
		if !ok {
			panic(engineError{"errors.Is: Unwrap() []error is not supported"})
		}
		err = next
	}
	return false
}

// piece of a formatted string: concrete text or a symbolic String term.
type piece struct {
	s   string
	sym bool
}

func joinPieces(ps []piece) value {
	anySym := false
	for _, p := range ps {
		if p.sym {
			anySym = true
		}
	}
	if !anySym {
		var b strings.Builder
		for _, p := range ps {
			b.WriteString(p.s)
		}
		return b.String()
	}
	var terms []string
	var cur strings.Builder
	flush := func() {
		if cur.Len() > 0 {
			terms = append(terms, smtString(cur.String()))
			cur.Reset()
		}
	}
	for _, p := range ps {
		if p.sym {
			flush()
			terms = append(terms, p.s)
		} else {
			cur.WriteString(p.s)
		}
	}
	flush()
	if len(terms) == 1 {
		return sym{types.String, terms[0]}
	}
	return sym{types.String, "(str.++ " + strings.Join(terms, " ") + ")"}
}

func (i *interpreter) sprint(args []value) value {
	var ps []piece
	prevString := true
	for k, a := range args {
		itf := a.(iface)
		_, isStr := itf.v.(string)
		if s, ok := itf.v.(sym); ok && s.kind == types.String {
			isStr = true
		}
		if k > 0 && !isStr && !prevString {
			ps = append(ps, piece{s: " "})
		}
		ps = append(ps, i.fmtValue(itf, 'v', "", 0)...)
		prevString = isStr
	}
	return joinPieces(ps)
}

func (i *interpreter) sprintf(format value, args []value) value {
	f := mustStr("fmt.Sprintf format", format)
	var ps []piece
	arg := 0
	for k := 0; k < len(f); k++ {
		c := f[k]
		if c != '%' {
			j := strings.IndexByte(f[k:], '%')
			if j < 0 {
				j = len(f) - k
			}
			ps = append(ps, piece{s: f[k : k+j]})
			k += j - 1
			continue
		}
		k++
		st := k
		for k < len(f) && strings.IndexByte("+-# 0123456789.", f[k]) >= 0 {
			k++
		}
		if k >= len(f) {
			ps = append(ps, piece{s: "%!(NOVERB)"})
			break
		}
		flags := f[st:k]
		verb := f[k]
		if verb == '%' {
			ps = append(ps, piece{s: "%"})
			continue
		}
		if arg >= len(args) {
			ps = append(ps, piece{s: "%!" + string(verb) + "(MISSING)"})
			continue
		}
		ps = append(ps, i.fmtValue(args[arg].(iface), verb, flags, 0)...)
		arg++
	}
	if arg < len(args) {
		panic(engineError{"fmt: extra arguments (%!(EXTRA …)) not modelled for format " + strconv.Quote(f)})
	}
	return joinPieces(ps)
}

// fmtValue formats one operand the way package fmt does for the verbs NilAway uses.
func (i *interpreter) fmtValue(itf iface, verb byte, flags string, depth int) []piece {
	if flags != "" && !(flags == "+" && verb == 'v') {
		// widths/precisions are used by NilAway only with concrete scalars
		if goV, ok := nativeScalar(itf.v); ok {
			return []piece{{s: fmt.Sprintf("%"+flags+string(verb), goV)}}
		}
		panic(engineError{fmt.Sprintf("fmt: flags %q with verb %%%c on %T not modelled", flags, verb, itf.v)})
	}
	if verb == 'T' {
		if itf.t == nil {
			return []piece{{s: "<nil>"}}
		}
		return []piece{{s: itf.t.String()}}
	}
	if itf.t == nil {
		if verb == 'v' {
			return []piece{{s: "<nil>"}}
		}
		return []piece{{s: "%!" + string(verb) + "(<nil>)"}}
	}
	// error / Stringer take precedence for %v %s %q
	if verb == 'v' || verb == 's' || verb == 'q' {
		if ptr, ok := itf.v.(*value); ok && ptr == nil {
			if _, isPtr := itf.t.Underlying().(*types.Pointer); isPtr {
				if i.lookupMethodByName(itf.t, "Error") != nil || i.lookupMethodByName(itf.t, "String") != nil {
					return []piece{{s: "<nil>"}}
				}
			}
		}
		for _, name := range []string{"Error", "String"} {
			if m := i.methodNamed(itf.t, name); m != nil {
				r := call(i, i.cur, 0, m, []value{itf.v})
				return i.fmtValue(iface{t: types.Typ[types.String], v: r}, verb, "", depth+1)
			}
		}
	}
	switch v := itf.v.(type) {
	case sym:
		switch {
		case v.kind == types.String && (verb == 's' || verb == 'v'):
			return []piece{{s: i.nm(v.kind, v.t), sym: true}}
		case v.kind == types.String && verb == 'q':
			// printable ASCII assumed (ndStr): only backslash and double quote need escaping
			t := i.nm(v.kind, v.t)
			esc := "(str.replace_all (str.replace_all " + t + " \"\\u{5c}\" \"\\u{5c}\\u{5c}\") \"\"\"\" \"\\u{5c}\"\"\")"
			return []piece{{s: "\""}, {s: esc, sym: true}, {s: "\""}}
		case bvWidth(v.kind) > 0 && (verb == 'd' || verb == 'v'):
			return []piece{{s: i.symItoa(i.nm(v.kind, v.t), v.kind), sym: true}}
		case v.kind == types.Bool && (verb == 't' || verb == 'v'):
			return []piece{{s: "(ite " + i.nm(v.kind, v.t) + " \"true\" \"false\")", sym: true}}
		}
		panic(engineError{fmt.Sprintf("fmt: verb %%%c on symbolic %v not modelled", verb, kindName(v.kind))})
	case string:
		switch verb {
		case 's', 'v':
			return []piece{{s: v}}
		case 'q':
			return []piece{{s: strconv.Quote(v)}}
		}
	case bool:
		if verb == 't' || verb == 'v' {
			return []piece{{s: strconv.FormatBool(v)}}
		}
	}
	if goV, ok := nativeScalar(itf.v); ok {
		switch verb {
		case 'd', 'v', 'x', 'X', 'c', 'o', 'b', 'f', 'g', 'e', 'U':
			return []piece{{s: fmt.Sprintf("%"+string(verb), goV)}}
		}
		return []piece{{s: fmt.Sprintf("%"+string(verb), goV)}}
	}
	if verb != 'v' && verb != 's' {
		panic(engineError{fmt.Sprintf("fmt: verb %%%c on %T not modelled", verb, itf.v)})
	}
	plus := flags == "+"
	// composite values under %v
	switch v := itf.v.(type) {
	case structure:
		st := itf.t.Underlying().(*types.Struct)
		ps := []piece{{s: "{"}}
		for k := range v {
			if k > 0 {
				ps = append(ps, piece{s: " "})
			}
			if plus {
				ps = append(ps, piece{s: st.Field(k).Name() + ":"})
			}
			ps = append(ps, i.fmtValue(i.asIface(st.Field(k).Type(), v[k]), verb, flags, depth+1)...)
		}
		return append(ps, piece{s: "}"})
	case []value:
		var et types.Type
		switch u := itf.t.Underlying().(type) {
		case *types.Slice:
			et = u.Elem()
		default:
			panic(engineError{"fmt: slice value with non-slice type"})
		}
		ps := []piece{{s: "["}}
		for k := range v {
			if k > 0 {
				ps = append(ps, piece{s: " "})
			}
			ps = append(ps, i.fmtValue(i.asIface(et, v[k]), verb, flags, depth+1)...)
		}
		return append(ps, piece{s: "]"})
	case array:
		et := itf.t.Underlying().(*types.Array).Elem()
		ps := []piece{{s: "["}}
		for k := range v {
			if k > 0 {
				ps = append(ps, piece{s: " "})
			}
			ps = append(ps, i.fmtValue(i.asIface(et, v[k]), verb, flags, depth+1)...)
		}
		return append(ps, piece{s: "]"})
	case *value:
		if v == nil {
			return []piece{{s: "<nil>"}}
		}
		if depth == 0 {
			if pt, ok := itf.t.Underlying().(*types.Pointer); ok {
				switch pt.Elem().Underlying().(type) {
				case *types.Struct, *types.Array, *types.Slice, *types.Map:
					ps := []piece{{s: "&"}}
					return append(ps, i.fmtValue(iface{t: pt.Elem(), v: *v}, verb, flags, depth+1)...)
				}
			}
		}
		panic(engineError{"fmt: printing a pointer address is not deterministic; not modelled"})
	case iface:
		return i.fmtValue(v, verb, flags, depth+1)
	}
	panic(engineError{fmt.Sprintf("fmt: %%%c of %T (%v) not modelled", verb, itf.v, itf.t)})
}

// asIface wraps a field/element value of static type t as a dynamic-typed operand.
func (i *interpreter) asIface(t types.Type, v value) iface {
	if itf, ok := v.(iface); ok {
		if _, isI := t.Underlying().(*types.Interface); isI {
			return itf
		}
	}
	return iface{t: t, v: v}
}

func (i *interpreter) methodNamed(t types.Type, name string) *ssa.Function {
	ms := i.prog.MethodSets.MethodSet(t)
	for k := 0; k < ms.Len(); k++ {
		sel := ms.At(k)
		if sel.Obj().Name() == name {
			sig := sel.Type().(*types.Signature)
			if sig.Params().Len() == 0 && sig.Results().Len() == 1 {
				if b, ok := sig.Results().At(0).Type().Underlying().(*types.Basic); ok && b.Kind() == types.String {
					return i.prog.MethodValue(sel)
				}
			}
		}
	}
	return nil
}

// lookupMethodByName finds an exported method of t's method set by name (nil if absent).
func (i *interpreter) lookupMethodByName(t types.Type, name string) *ssa.Function {
	ms := i.prog.MethodSets.MethodSet(t)
	for k := 0; k < ms.Len(); k++ {
		if sel := ms.At(k); sel.Obj().Name() == name {
			return i.prog.MethodValue(sel)
		}
	}
	return nil
}

func nativeScalar(v value) (any, bool) {
	switch v.(type) {
	case int, int8, int16, int32, int64, uint, uint8, uint16, uint32, uint64, uintptr, float32, float64, bool, string:
		return v, true
	}
	return nil, false
}

// symbolic string helpers -----------------------------------------------------

func (i *interpreter) bvToInt(v value) string {
	if s, ok := v.(sym); ok {
		return "(bv2nat " + i.nm(s.kind, s.t) + ")"
	}
	return fmt.Sprintf("%d", asInt64(v))
}

func (i *interpreter) symStringSlice(s sym, lo, hi value) value {
	st := i.nm(types.String, s.t)
	l := "0"
	if lo != nil {
		l = i.bvToInt(lo)
	}
	h := "(str.len " + st + ")"
	if hi != nil {
		h = i.bvToInt(hi)
	}
	// bounds check: 0 <= l <= h <= len
	ok := "(and (<= " + l + " " + h + ") (<= " + h + " (str.len " + st + ")))"
	if !i.truth(symBool(ok)) {
		panic(targetRuntimeError("slice bounds out of range (symbolic string)"))
	}
	return sym{types.String, "(str.substr " + st + " " + l + " (- " + h + " " + l + "))"}
}

func (i *interpreter) symStringIndex(s sym, idx value) value {
	st := i.nm(types.String, s.t)
	k := i.bvToInt(idx)
	ok := "(< " + k + " (str.len " + st + "))"
	if !i.truth(symBool(ok)) {
		panic(targetRuntimeError("index out of range (symbolic string)"))
	}
	return sym{types.Uint8, "((_ int2bv 8) (str.to_code (str.at " + st + " " + k + ")))"}
}

var _ = token.ADD
