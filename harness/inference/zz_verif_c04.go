package inference

// C04 (map-iteration order and fact arrival order as symbolic schedule; DESIGN.md section 2.4 and
// section 4, C04). Each kernel is run twice inside one path with INDEPENDENT order choices (symx
// explores every iteration order of every Go map the kernel ranges over) and the observable output
// - the insertion-ordered inferred map, whose Pairs sequence determines the gob bytes of the
// exported fact - must be identical.
//
//  K2  annotation.(*ObservedMap).Range -> Engine.ObserveAnnotations
//  K3  Engine.ObservePackage -> buildPkgInferenceMap / activateControlledTriggers (range over the
//      set of controlled triggers of a controller site)
//  K4  Engine.ObserveUpstream: dependency facts handed over in any order

//verif:use zz_verif_c05l2.go
//verif:use zz_verif_c06.go

import (
	"go/token"
	"go/types"

	"go.uber.org/nilaway/annotation"
	"go.uber.org/nilaway/util/analysishelper"
	"golang.org/x/tools/go/analysis"
)

func c04SamePairs(tag string, a, b *InferredMap) {
	ndObserveInt("pairs", len(a.mapping.Pairs))
	ndAssert(tag+".same_number_of_sites", len(a.mapping.Pairs) == len(b.mapping.Pairs))
	if len(a.mapping.Pairs) != len(b.mapping.Pairs) {
		return
	}
	same := true
	for i := range a.mapping.Pairs {
		p, q := a.mapping.Pairs[i], b.mapping.Pairs[i]
		same = ndAnd(same, ndAnd(p.Key.Position.Offset == q.Key.Position.Offset, ndAnd(p.Key.IsDeep == q.Key.IsDeep, p.Key.Repr == q.Key.Repr)))
		dv, pd := p.Value.(*DeterminedVal)
		dw, qd := q.Value.(*DeterminedVal)
		if pd != qd {
			same = false
		} else if pd {
			same = ndAnd(same, dv.Bool.Val() == dw.Bool.Val())
		} else {
			u, w := p.Value.(*UndeterminedVal), q.Value.(*UndeterminedVal)
			if len(u.Implicates.Pairs) != len(w.Implicates.Pairs) || len(u.Implicants.Pairs) != len(w.Implicants.Pairs) {
				same = false
			} else {
				for j := range u.Implicates.Pairs {
					same = ndAnd(same, u.Implicates.Pairs[j].Key.Position.Offset == w.Implicates.Pairs[j].Key.Position.Offset)
				}
				for j := range u.Implicants.Pairs {
					same = ndAnd(same, u.Implicants.Pairs[j].Key.Position.Offset == w.Implicants.Pairs[j].Key.Position.Offset)
				}
			}
		}
	}
	ndAssert(tag+".same_site_sequence_in_exported_map", same)
}

func Harness_C04_K2() {
	pass := c05NewPass()
	n := 2 + ndChoice("n", ndParam("ENTRIES", 3)-1)
	globals := map[*types.Var]annotation.Val{}
	fields := map[*types.Var]annotation.Val{}
	for k := 0; k < n; k++ {
		pos := token.Pos(1 + 10*k + ndInt("pos", 0, 9))
		val := annotation.Val{IsNilable: ndBool("nilable"), IsNilableSet: true}
		if ndChoice("deep_too", 2) == 1 {
			val.IsDeepNilable, val.IsDeepNilableSet = ndBool("deep"), true
		}
		if ndChoice("is_field", 2) == 1 {
			fields[types.NewVar(pos, c05Pkg, "fld", nil)] = val
		} else {
			globals[types.NewVar(pos, c05Pkg, "v", nil)] = val
		}
	}
	m := annotation.VerifObservedMap(globals, fields)
	ndMapOrder(true)
	e1 := NewEngine(pass, &c05Rec{})
	e1.ObserveAnnotations(m)
	e2 := NewEngine(pass, &c05Rec{})
	e2.ObserveAnnotations(m)
	ndMapOrder(false)
	c04SamePairs("C04.K2.annotation_replay", e1.inferredMap, e2.inferredMap)
}

func Harness_C04_K3() {
	n := 2 + ndChoice("n", ndParam("TRIGGERS", 3)-1)
	ctl := l2Ref{kind: 1, idx: 0}
	mk := func() (*Engine, *c05Rec) {
		pass := c05NewPass()
		rec := &c05Rec{}
		e := NewEngine(pass, rec)
		return e, rec
	}
	build := func() []annotation.FullTrigger {
		var ts []annotation.FullTrigger
		for k := 0; k < n; k++ {
			// controlled "nil -> site k+1" under controller c0
			ts = append(ts, l2Trigger(k, l2Op{kind: l2CtlSrc, c: ctl, b: l2Ref{kind: 0, idx: 1 + k}}))
		}
		// the controller becomes nilable: nil flows into the call-site parameter
		ts = append(ts, l2Trigger(n, l2Op{kind: l2Source, a: ctl}))
		return ts
	}
	late := ndChoice("controller_determined", 2) // 0: by a trigger (activation inside the engine), 1: by an annotation beforehand
	ndMapOrder(true)
	e1, r1 := mk()
	t1 := build()
	if late == 1 {
		s := e1.primitive.site(l2Key(ctl), false)
		e1.observeSiteExplanation(s, TrueBecauseAnnotation{AnnotationPos: s.Position})
	}
	e1.ObservePackage(t1)
	e2, r2 := mk()
	t2 := build()
	if late == 1 {
		s := e2.primitive.site(l2Key(ctl), false)
		e2.observeSiteExplanation(s, TrueBecauseAnnotation{AnnotationPos: s.Position})
	}
	e2.ObservePackage(t2)
	ndMapOrder(false)
	ndAssert("C04.K3.same_conflicts", len(r1.over) == len(r2.over) && r1.single == r2.single)
	c04SamePairs("C04.K3.controlled_trigger_activation", e1.inferredMap, e2.inferredMap)
}

func Harness_C04_K4() {
	c06PkgNames = map[*types.Package]string{}
	SP := ndParam("SP", 2)
	NP := ndParam("NP", 2)
	S := 2 * SP
	w := &c06World{SP: S, expv: make([]bool, S)}
	for i := range w.expv {
		w.expv[i] = true
	}
	names := []string{"m/a", "m/b"}
	var facts []analysis.PackageFact
	for k := 0; k < 2; k++ {
		pkg := c06NewPkg(names[k])
		var exported *InferredMap
		pass := analysishelper.NewEnhancedPass(&analysis.Pass{Pkg: pkg,
			AllPackageFacts:   func() []analysis.PackageFact { return nil },
			ExportPackageFact: func(f analysis.Fact) { exported = f.(*InferredMap) }})
		e := NewEngine(pass, &c05Rec{})
		n := 1 + ndChoice("n", NP)
		for j := 0; j < n; j++ {
			var op c05Op
			op.kind = ndChoice("kind", 3)
			op.a = ndInt("a", 0, S-1)
			if op.kind == c05Edge {
				op.b = ndInt("b", 0, S-1)
			}
			w.apply(e, 10*k+j, op)
		}
		e.inferredMap.Export(pass)
		if exported != nil {
			facts = append(facts, analysis.PackageFact{Package: pkg, Fact: c06Codec(exported)})
		}
	}
	if len(facts) < 2 {
		return
	}
	run := func(order []analysis.PackageFact) (*Engine, *c05Rec) {
		rec := &c05Rec{}
		pass := analysishelper.NewEnhancedPass(&analysis.Pass{Pkg: c06NewPkg("m/d"),
			AllPackageFacts: func() []analysis.PackageFact { return order }})
		e := NewEngine(pass, rec)
		e.ObserveUpstream()
		return e, rec
	}
	e1, r1 := run([]analysis.PackageFact{facts[0], facts[1]})
	e2, r2 := run([]analysis.PackageFact{facts[1], facts[0]})
	ndAssert("C04.K4.same_conflicts", len(r1.over) == len(r2.over))
	c04SamePairs("C04.K4.fact_arrival_order", e1.inferredMap, e2.inferredMap)
}
