package accumulation

// P13M: grouping must not merge findings of DIFFERENT functions. Each of two functions reads a local map of
// pointers and dereferences the element (`mp := make(map[int]*int); _ = *mp[0]`) - a single-assertion conflict
// whose nil source has no position, so the grouping key falls back to the printed texts plus the enclosing
// function. The two functions are: two plain functions, two methods with the same name on different receiver
// types, or two init functions. The nil sources are different locals, so with grouping on there must still be
// two diagnostics (C13: a location may only be listed under a diagnostic with the same nil source). As a
// control, two dereferences in ONE function are grouped into one diagnostic that lists the other place.

//verif:use zz_verif_pipe.go

import "strings"

func Harness_P13M() {
	var b strings.Builder
	b.WriteString("package p\n\ntype A struct{}\ntype B struct{}\n\n")
	body := "\tmp := make(map[int]*int)\n\t_ = *mp[0]\n"
	same := false
	switch ndChoice("functions", 4) {
	case 0:
		b.WriteString("func f1() {\n" + body + "}\n\nfunc f2() {\n" + body + "}\n")
	case 1:
		b.WriteString("func (A) get() {\n" + body + "}\n\nfunc (B) get() {\n" + body + "}\n")
	case 2:
		b.WriteString("func init() {\n" + body + "}\n\nfunc init() {\n" + body + "}\n")
	default:
		b.WriteString("func f1() {\n" + body + "\t_ = *mp[0]\n}\n")
		same = true
	}
	src := b.String()
	ndObserveStr("source", src)
	pipeGroupMessages = false
	plain := pipeAnalyse(src)
	pipeGroupMessages = true
	grouped := pipeAnalyse(src)
	ndObserveInt("diagnostics_plain", len(plain.diags))
	ndObserveInt("diagnostics_grouped", len(grouped.diags))
	for _, d := range grouped.diags {
		ndObserveStr("diag", d.Message)
	}
	ndAssert("P13M.no_internal_failure", plain.panicked == "" && grouped.panicked == "" && len(plain.funcErrs) == 0 && len(grouped.funcErrs) == 0)
	ndAssert("P13M.both_dereferences_are_reported_without_grouping", len(plain.diags) == 2)
	if same {
		ndAssert("P13M.same_function_same_source_is_grouped", len(grouped.diags) == 1)
	} else {
		ndAssert("P13M.findings_of_different_functions_are_not_grouped_together", len(grouped.diags) == 2)
	}
}
