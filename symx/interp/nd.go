// Harness-facing intrinsics (nd*), function resolution (stubs, intrinsics), globals policy.

package interp

import (
	"fmt"
	"go/token"
	"go/types"
	"os"
	"path/filepath"
	"strings"
	"sync"
	"sync/atomic"
	"time"

	"golang.org/x/tools/go/ssa"
)

type externalFn func(fr *frame, args []value) value

type fnInfo struct {
	name string
	ext  externalFn
	repl *ssa.Function
}

// sharedInfo is computed once per exploration and read by all workers.
type sharedInfo struct {
	cache       sync.Map // *ssa.Function -> *fnInfo
	initialised map[*ssa.Global]bool
	initPkgs    map[*ssa.Package]bool // packages whose init the harness asked to run
	stubs       map[string]*ssa.Function
	prog        *ssa.Program
	constInit   map[*ssa.Global]*ssa.Const
	regexMemo   sync.Map // pattern -> compiled *regexp.Regexp value (see callSSA)
}

func newSharedInfo(cfg *Config) *sharedInfo {
	sh := &sharedInfo{constInit: map[*ssa.Global]*ssa.Const{}, initialised: map[*ssa.Global]bool{}, stubs: cfg.Stubs, prog: cfg.Prog, initPkgs: map[*ssa.Package]bool{}}
	for _, pkg := range cfg.Prog.AllPackages() {
		init := pkg.Func("init")
		if init == nil {
			continue
		}
		var rands []*ssa.Value
		refs := map[*ssa.Global]int{}
		consts := map[*ssa.Global]*ssa.Const{}
		for _, b := range init.Blocks {
			for _, ins := range b.Instrs {
				rands = ins.Operands(rands[:0])
				for _, r := range rands {
					if g, ok := (*r).(*ssa.Global); ok && g.Pkg == pkg && !strings.HasPrefix(g.Name(), "init$") {
						if u, ok := ins.(*ssa.UnOp); ok && u.Op == token.MUL {
							continue // a plain read of the variable
						}
						sh.initialised[g] = true
						refs[g]++
					}
				}
				if st, ok := ins.(*ssa.Store); ok {
					if g, ok := st.Addr.(*ssa.Global); ok {
						if c, ok := st.Val.(*ssa.Const); ok {
							consts[g] = c
						}
					}
				}
			}
		}
		// a global whose only mention in init is "g = <constant>" is materialised with that constant
		for g, c := range consts {
			if refs[g] == 1 {
				if _, isBasic := c.Type().Underlying().(*types.Basic); isBasic || c.Value == nil {
					sh.constInit[g] = c
					delete(sh.initialised, g)
				}
			}
		}
	}
	for _, p := range cfg.InitPkgs {
		if pkg := cfg.Prog.ImportedPackage(p); pkg != nil {
			sh.initPkgs[pkg] = true
		}
	}
	return sh
}

func (sh *sharedInfo) info(i *interpreter, fn *ssa.Function) *fnInfo {
	if v, ok := sh.cache.Load(fn); ok {
		return v.(*fnInfo)
	}
	inf := &fnInfo{name: fn.String()}
	if r, ok := sh.stubs[inf.name]; ok && r != fn {
		inf.repl = r
	} else if e := ndIntrinsic(sh.prog, fn); e != nil {
		inf.ext = e
	} else if e, ok := externals[inf.name]; ok {
		inf.ext = e
	} else if o := fn.Origin(); o != nil {
		// instantiation of a generic function: look up by the generic's name
		if e, ok := externals[o.String()]; ok {
			inf.ext = e
		}
	}
	v, _ := sh.cache.LoadOrStore(fn, inf)
	return v.(*fnInfo)
}

// checkGlobalRead fails the path closed when the code reads a package-level
// variable that has an initialiser which was not executed.
func (i *interpreter) checkGlobalRead(g *ssa.Global) {
	if !i.shared.initialised[g] || i.written[g] {
		return
	}
	if g.Pkg != nil && i.shared.initPkgs[g.Pkg] {
		return
	}
	if zeroIsTheModel[g.String()] {
		return
	}
	for _, z := range i.cfg.InitPkgs {
		if z == "zero:"+g.String() {
			return
		}
	}
	panic(engineError{fmt.Sprintf("read of package-level variable %s whose initialiser was not run (at %s)", g.String(), i.where())})
}

// zeroIsTheModel lists initialised package-level variables whose zero value is the stated model of the
// environment (their initialisers use reflection or the process environment):
//   - internal/buildcfg.Experiment: no GOEXPERIMENT is in force, every experiment flag is off. go/types reads
//     only .RangeFunc, and with it off range-over-func is still allowed for unversioned packages (go1.23+).
var zeroIsTheModel = map[string]bool{"internal/buildcfg.Experiment": true}

// runInits executes the package initialisers the harness asked for (own
// statements only; calls to other packages' init are skipped).
func (i *interpreter) runInits() {
	for _, p := range i.cfg.InitPkgs {
		if strings.HasPrefix(p, "zero:") {
			continue
		}
		pkg := i.prog.ImportedPackage(p)
		if pkg == nil {
			panic(engineError{"init: no such package " + p})
		}
		if f := pkg.Func("init"); f != nil {
			i.inInit = true
			call(i, nil, 0, f, nil)
			i.inInit = false
		}
	}
}

func isHarnessFunc(prog *ssa.Program, fn *ssa.Function) bool {
	if fn.Pkg == nil || fn.Parent() != nil || fn.Signature.Recv() != nil {
		return false
	}
	if !strings.HasPrefix(fn.Name(), "nd") {
		return false
	}
	file := prog.Fset.Position(fn.Pos()).Filename
	return strings.HasPrefix(filepath.Base(file), "zz_verif")
}

func ndIntrinsic(prog *ssa.Program, fn *ssa.Function) externalFn {
	if !isHarnessFunc(prog, fn) {
		return nil
	}
	if e, ok := ndTable[fn.Name()]; ok {
		return e
	}
	return nil
}

var ndTable map[string]externalFn

func init() {
	ndTable = map[string]externalFn{
		"ndInt":         ndInt,
		"ndBool":        ndBool,
		"ndChoice":      ndChoice,
		"ndStr":         ndStr,
		"ndIdent":       ndIdent,
		"ndAssume":      ndAssume,
		"ndAssert":      ndAssert,
		"ndAnd":         func(fr *frame, a []value) value { return fr.i.symBool2(a[0], a[1], mkAnd) },
		"ndOr":          func(fr *frame, a []value) value { return fr.i.symBool2(a[0], a[1], mkOr) },
		"ndNot":         func(fr *frame, a []value) value { return symBool(mkNot(termOf(a[0]))) },
		"ndImplies":     func(fr *frame, a []value) value { return fr.i.symBool2(symBool(mkNot(termOf(a[0]))), a[1], mkOr) },
		"ndIff":         func(fr *frame, a []value) value { return symBool("(= " + fr.i.nmt(a[0]) + " " + fr.i.nmt(a[1]) + ")") },
		"ndIteInt":      ndIte,
		"ndIteBool":     ndIte,
		"ndIteStr":      ndIte,
		"ndObserve":     ndObserve,
		"ndObserveInt":  ndObserve,
		"ndObserveBool": ndObserve,
		"ndObserveStr":  ndObserve,
		"ndMapOrder":    func(fr *frame, a []value) value { fr.i.path.mapPerm = a[0].(bool); return nil },
		"ndExpectPanic": func(fr *frame, a []value) value { fr.i.path.expectPan = true; return nil },
		"ndSnapshot":    ndSnapshot,
		"ndIsSymbolic":  func(fr *frame, a []value) value { return true },
		"ndConcInt":     func(fr *frame, a []value) value { return int(fr.i.concreteInt(a[0])) },
		"ndConcBool":    func(fr *frame, a []value) value { return fr.i.truth(a[0]) },
		"ndSameAddr":    ndSameAddr,
		"ndParam": func(fr *frame, a []value) value {
			p := fr.i.path
			name := ndName(a[0])
			v := asInt64(a[1])
			if x, ok := fr.i.cfg.Params[name]; ok {
				v = x
			}
			p.nd = append(p.nd, ndvar{name: name, kind: "choice", value: v})
			return int(v)
		},
	}
}

func (i *interpreter) nmt(v value) string {
	k, ok := kindOfValue(v)
	if !ok {
		panic(engineError{fmt.Sprintf("nd: scalar expected, got %T", v)})
	}
	return i.nm(k, termOf(v))
}

func (i *interpreter) symBool2(a, b value, f func(x, y string) string) value {
	return symBool(f(i.nmt(a), i.nmt(b)))
}

func ndName(v value) string {
	s, ok := v.(string)
	if !ok {
		panic(engineError{"nd: name/id argument must be a concrete string"})
	}
	return s
}

func sanitize(s string) string {
	var b strings.Builder
	for _, c := range s {
		if c >= 'a' && c <= 'z' || c >= 'A' && c <= 'Z' || c >= '0' && c <= '9' || c == '_' {
			b.WriteRune(c)
		} else {
			b.WriteByte('_')
		}
	}
	return b.String()
}

// ndInt(name, lo, hi) int: a symbolic int with lo <= v <= hi.
func ndInt(fr *frame, a []value) value {
	p := fr.i.path
	name := ndName(a[0])
	lo, hi := asInt64(a[1]), asInt64(a[2])
	if lo == hi {
		p.nd = append(p.nd, ndvar{name: name, kind: "choice", value: lo})
		return int(lo)
	}
	c := fmt.Sprintf("i%d_%s", len(p.nd), sanitize(name))
	p.declare(c, "(_ BitVec 64)")
	p.assert(fmt.Sprintf("(and (bvsle %s %s) (bvsle %s %s))", bvLit(uint64(lo), 64), c, c, bvLit(uint64(hi), 64)))
	p.nd = append(p.nd, ndvar{name: name, kind: "int", bk: types.Int, term: c})
	if p.intRanges == nil {
		p.intRanges = map[string][2]int64{}
	}
	p.intRanges[c] = [2]int64{lo, hi}
	return sym{types.Int, c}
}

func ndBool(fr *frame, a []value) value {
	p := fr.i.path
	name := ndName(a[0])
	c := fmt.Sprintf("b%d_%s", len(p.nd), sanitize(name))
	p.declare(c, "Bool")
	p.nd = append(p.nd, ndvar{name: name, kind: "bool", bk: types.Bool, term: c})
	return sym{types.Bool, c}
}

// ndStr(name, maxLen) string: a symbolic printable-ASCII string of bounded length.
func ndStr(fr *frame, a []value) value {
	p := fr.i.path
	name := ndName(a[0])
	max := asInt64(a[1])
	c := fmt.Sprintf("s%d_%s", len(p.nd), sanitize(name))
	p.declare(c, "String")
	p.assert(fmt.Sprintf("(<= (str.len %s) %d)", c, max))
	p.assert(fmt.Sprintf("(str.in_re %s (re.* (re.range \" \" \"~\")))", c))
	p.nd = append(p.nd, ndvar{name: name, kind: "str", bk: types.String, term: c})
	return sym{types.String, c}
}

// ndIdent(name, maxLen) string: a symbolic Go identifier ([A-Za-z_][A-Za-z0-9_]*) of bounded length.
func ndIdent(fr *frame, a []value) value {
	p := fr.i.path
	name := ndName(a[0])
	max := asInt64(a[1])
	c := fmt.Sprintf("s%d_%s", len(p.nd), sanitize(name))
	p.declare(c, "String")
	p.assert(fmt.Sprintf("(<= (str.len %s) %d)", c, max))
	letter := `(re.union (re.range "a" "z") (re.range "A" "Z") (str.to_re "_"))`
	p.assert(fmt.Sprintf("(str.in_re %s (re.++ %s (re.* (re.union %s (re.range \"0\" \"9\")))))", c, letter, letter))
	p.nd = append(p.nd, ndvar{name: name, kind: "str", bk: types.String, term: c})
	return sym{types.String, c}
}

// ndChoice(name, n) int: a concrete value in [0,n), every one explored.
func ndChoice(fr *frame, a []value) value {
	p := fr.i.path
	name := ndName(a[0])
	n := int(asInt64(a[1]))
	if n <= 0 {
		panic(engineError{"ndChoice with n <= 0"})
	}
	k := 0
	if n > 1 {
		k = p.choose(make([]string, n), false)
	}
	p.nd = append(p.nd, ndvar{name: name, kind: "choice", value: int64(k)})
	return k
}

func ndAssume(fr *frame, a []value) value {
	p := fr.i.path
	switch c := a[0].(type) {
	case bool:
		if !c {
			panic(pathStop{reason: "assumption false", pruned: true})
		}
	case sym:
		t := fr.i.nm(types.Bool, c.t)
		if len(p.decisions) >= len(p.prefix) {
			// fresh territory: make sure the path stays feasible
			switch p.check(t) {
			case "unsat":
				atomic.AddInt64(&p.ex.res.UnsatPruned, 1)
				panic(pathStop{reason: "assumption infeasible", pruned: true})
			case "unknown":
				atomic.AddInt64(&p.ex.res.UnknownKept, 1)
			}
		}
		p.assert(t)
	}
	return nil
}

// ndAssert(id, cond): the property. A feasible ¬cond is a violation.
func ndAssert(fr *frame, a []value) value {
	i := fr.i
	p := i.path
	id := ndName(a[0])
	fail := func(concrete bool) {
		v := Violation{ID: id, Kind: "assert", Msg: "assertion " + id + " can fail", Decisions: append([]int32(nil), p.decisions...), Where: i.where()}
		vec, ok := p.model()
		if !ok {
			p.ex.inconclusive("no model for failing assertion " + id)
			return
		}
		v.Vector = vec
		v.Observed = p.evalObserved()
		v.PC = append([]string(nil), p.pc...)
		p.ex.addViolation(v)
		p.assertFail = append(p.assertFail, id)
	}
	switch c := a[0+1].(type) {
	case bool:
		atomic.AddInt64(&p.ex.res.AssertsConc, 1)
		if !c {
			fail(true)
		}
	case sym:
		if len(p.decisions) < len(p.prefix) {
			// this obligation was discharged by the path that discovered the prefix
			p.assert(i.nm(types.Bool, c.t))
			return nil
		}
		t := i.nm(types.Bool, c.t)
		atomic.AddInt64(&p.ex.res.AssertsChecked, 1)
		p.ensureFresh()
		p.sv.send("(push 1)")
		p.sv.send("(assert " + mkNot(t) + ")")
		t0 := time.Now()
		r := p.sv.checkSat()
		timedOut := r == "unknown"
		if (r == "unknown" || time.Since(t0) > 2*time.Second) && p.sv.log != nil {
			n := atomic.AddInt64(&p.ex.dumpSeq, 1)
			if n <= 20 {
				os.WriteFile(fmt.Sprintf("%s/assert-%s-%d.smt2", p.ex.cfg.DumpDir, r, n), []byte(p.sv.log.String()), 0o644)
			}
		}
		if r == "unknown" {
			r = p.solveFresh(mkNot(t))
			if r == "sat" {
				// need a model from the live session: re-ask with a longer budget is not possible; report inconclusive
				p.ex.inconclusive("assertion " + id + " fails per a fallback solver but the session gave no model")
				r = "fallback-sat"
			}
		}
		switch r {
		case "sat":
			fail(false)
		case "unknown":
			p.ex.inconclusive("solver answered unknown for assertion " + id)
		}
		p.sv.send("(pop 1)")
		_ = timedOut
		p.ensureFresh() // a session that timed out or printed an error is not trusted again
		// continue under the assertion (as an assumption) if that is feasible
		if r != "unsat" {
			if p.check(t) == "unsat" {
				panic(pathStop{reason: "assertion always fails here", pruned: true})
			}
		}
		p.assert(t)
	}
	return nil
}

func ndIte(fr *frame, a []value) value {
	c := a[0]
	if b, ok := c.(bool); ok {
		if b {
			return a[1]
		}
		return a[2]
	}
	k, ok := kindOfValue(a[1])
	if !ok {
		panic(engineError{"ndIte on non-scalars"})
	}
	i := fr.i
	t := "(ite " + i.nmt(c) + " " + i.nmt(a[1]) + " " + i.nmt(a[2]) + ")"
	if k == types.Bool {
		return symBool(t)
	}
	return sym{k, t}
}

type obsEntry struct {
	text string
	term string
	kind types.BasicKind
}

// ndObserve(tag, v): appends to the observation log compared with the native run.
func ndObserve(fr *frame, a []value) value {
	p := fr.i.path
	tag := ndName(a[0])
	v := a[1]
	if itf, ok := v.(iface); ok {
		v = itf.v
	}
	if s, ok := v.(sym); ok {
		p.observedSym = append(p.observedSym, obsEntry{text: tag + "=", term: fr.i.nm(s.kind, s.t), kind: s.kind})
		p.observed = append(p.observed, "")
		return nil
	}
	p.observedSym = append(p.observedSym, obsEntry{})
	p.observed = append(p.observed, tag+"="+renderObs(v))
	return nil
}

func renderObs(v value) string {
	switch v := v.(type) {
	case string:
		return fmt.Sprintf("%q", v)
	case bool:
		return fmt.Sprintf("%v", v)
	case nil:
		return "<nil>"
	}
	if _, ok := kindOfValue(v); ok {
		return fmt.Sprintf("%d", v)
	}
	return toString(v)
}

// ndSnapshot(root) string: a canonical rendering of everything reachable from
// root (pointer identities numbered by first visit). Two snapshots are equal
// iff the reachable heaps are isomorphic with equal scalars.
func ndSnapshot(fr *frame, a []value) value {
	var b strings.Builder
	seen := map[any]int{}
	var walk func(v value, depth int)
	walk = func(v value, depth int) {
		if depth > 200 {
			b.WriteString("<deep>")
			return
		}
		switch v := v.(type) {
		case *value:
			if v == nil {
				b.WriteString("nil")
				return
			}
			if n, ok := seen[v]; ok {
				fmt.Fprintf(&b, "@%d", n)
				return
			}
			seen[v] = len(seen)
			fmt.Fprintf(&b, "&%d(", seen[v])
			walk(*v, depth+1)
			b.WriteString(")")
		case structure:
			b.WriteString("{")
			for k := range v {
				if k > 0 {
					b.WriteString(",")
				}
				walk(v[k], depth+1)
			}
			b.WriteString("}")
		case array:
			b.WriteString("[")
			for k := range v {
				if k > 0 {
					b.WriteString(",")
				}
				walk(v[k], depth+1)
			}
			b.WriteString("]")
		case []value:
			if v == nil {
				b.WriteString("nilslice")
				return
			}
			// identity of the backing array = address of element 0 of the full-capacity slice
			full := v[:cap(v)]
			var key any
			if len(full) > 0 {
				key = &full[0]
			}
			if key != nil {
				if n, ok := seen[key]; ok {
					fmt.Fprintf(&b, "s@%d[%d:%d]", n, len(v), cap(v))
					return
				}
				seen[key] = len(seen)
				fmt.Fprintf(&b, "s&%d", seen[key])
			}
			fmt.Fprintf(&b, "[%d/%d:", len(v), cap(v))
			for k := range full {
				if k > 0 {
					b.WriteString(",")
				}
				walk(full[k], depth+1)
			}
			b.WriteString("]")
		case iface:
			if v.t == nil {
				b.WriteString("nilif")
				return
			}
			b.WriteString("if<" + v.t.String() + ">(")
			walk(v.v, depth+1)
			b.WriteString(")")
		case *omap:
			if v == nil {
				b.WriteString("nilmap")
				return
			}
			if n, ok := seen[v]; ok {
				fmt.Fprintf(&b, "m@%d", n)
				return
			}
			seen[v] = len(seen)
			fmt.Fprintf(&b, "m&%d{", seen[v])
			for _, e := range v.ents {
				walk(e.k, depth+1)
				b.WriteString(":")
				walk(e.v, depth+1)
				b.WriteString(";")
			}
			b.WriteString("}")
		case *closure:
			fmt.Fprintf(&b, "closure<%s>", v.Fn.String())
		case *ssa.Function:
			if v == nil {
				b.WriteString("nilfunc")
			} else {
				b.WriteString("func<" + v.String() + ">")
			}
		case sym:
			b.WriteString(v.String())
		case tuple:
			for k := range v {
				walk(v[k], depth+1)
				b.WriteString(";")
			}
		default:
			b.WriteString(renderObs(v))
		}
	}
	roots := a
	if len(a) == 1 {
		if xs, ok := a[0].([]value); ok {
			roots = xs
		}
	}
	for _, x := range roots {
		if itf, ok := x.(iface); ok {
			x = itf.v
		}
		walk(x, 0)
		b.WriteString("|")
	}
	return b.String()
}

// ndSameAddr(a, b any) bool: pointer identity of two pointers / slices' backing arrays.
func ndSameAddr(fr *frame, a []value) value {
	x, y := a[0], a[1]
	if xi, ok := x.(iface); ok {
		x = xi.v
	}
	if yi, ok := y.(iface); ok {
		y = yi.v
	}
	switch x := x.(type) {
	case *value:
		yy, ok := y.(*value)
		return ok && x == yy
	case []value:
		yy, ok := y.([]value)
		if !ok || cap(x) == 0 || cap(yy) == 0 {
			return false
		}
		return &x[:cap(x)][cap(x)-1] == &yy[:cap(yy)][cap(yy)-1]
	}
	return false
}
