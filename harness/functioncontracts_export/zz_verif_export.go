package functioncontracts

import (
	"go/ast"
	"go/types"

	"go.uber.org/nilaway/util/typeshelper"
	"golang.org/x/tools/go/ssa"
)

// VerifCollect is collectFunctionContracts without the goroutine fan-out (the executor has no thread model):
// the same per-declaration decisions - hand-written contracts first, then the one-parameter/one-result filter,
// then the REAL inferContracts on the function's SSA - applied declaration by declaration.
func VerifCollect(files []*ast.File, info *types.Info, ssaOf func(*types.Func) *ssa.Function) Map {
	m := Map{}
	for _, file := range files {
		for _, decl := range file.Decls {
			funcDecl, ok := decl.(*ast.FuncDecl)
			if !ok {
				continue
			}
			funcObj := info.ObjectOf(funcDecl.Name).(*types.Func)
			if parsed := parseContracts(funcDecl.Doc); len(parsed) != 0 {
				m[funcObj] = parsed
				continue
			}
			if hasNilabilityAnnotation(funcDecl.Doc) {
				continue
			}
			sig := funcObj.Type().(*types.Signature)
			if funcDecl.Type.Params.NumFields() != 1 || funcDecl.Type.Results.NumFields() != 1 ||
				typeshelper.TypeBarsNilness(sig.Params().At(0).Type()) || typeshelper.TypeBarsNilness(sig.Results().At(0).Type()) || sig.Variadic() {
				continue
			}
			fnssa := ssaOf(funcObj)
			if fnssa == nil || len(fnssa.Blocks) == 0 {
				continue
			}
			if contracts := inferContracts(fnssa); len(contracts) != 0 {
				m[funcObj] = contracts
			}
		}
	}
	return m
}
