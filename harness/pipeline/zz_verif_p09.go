package accumulation

// C09 at source level: nil through dynamic dispatch, over the real pipeline including the real affiliation
// analyzer. Program family:
//
//	type I interface { Get() *int; Set(p *int) }
//	type S1 struct{}   func (s *S1) Get() *int { G1 }   func (s *S1) Set(p *int) { T1 }
//	type S2 struct{}   func (s S2)  Get() *int { G2 }   func (s S2)  Set(p *int) { T2 }     (value receiver)
//	func use(i I) { U }            U: _ = *i.Get() | if v := i.Get(); v != nil { _ = *v } | i.Set(nil) | i.Set(new(int))
//	func Entry() { conversion(s) of &S1{} and/or S2{} to I: assignment, argument, either in a branch, both, `:=` reusing an
//	               interface variable, return statement, composite literal, append, decorator (struct embedding I converted to J),
//	               explicit conversion I(x), package-level variable, grouped named results, indexed literal element, variadic
//	               parameter, append on a named slice type, call through a function-typed variable, forwarded multi-value call }
//
// G ::= return nil | return new(int)      T ::= _ = *p | if p != nil { _ = *p }
// With SPLITS=2 the interface and use() also live in a dependency m/q (facts handed to the importer).
// Which implementation use() sees is an opaque flag. Oracle: the dispatch is executed symbolically over the
// flag - the program panics iff the selected implementation returns nil into an unchecked dereference, or
// dereferences a nil argument. P09.A1: panic possible => reported; P09.A2: no implementation can misbehave
// (all results non-nil or all uses checked; all parameter uses checked or no nil passed) => no diagnostic.

//verif:use zz_verif_pipe.go

import "strings"

func Harness_P09() {
	split := ndChoice("split", ndParam("SPLITS", 2)) == 1 // the interface and use() live in a dependency
	var b, dep strings.Builder
	ifaceTo := &b
	q := ""
	if split {
		ifaceTo, q = &dep, "q."
		dep.WriteString("package q\n\n")
		b.WriteString("package p\n\nimport \"m/q\"\n\nvar flag0 bool\n\n")
	} else {
		b.WriteString("package p\n\nvar flag0 bool\n\n")
	}
	ifaceTo.WriteString("type I interface {\n\tGet() *int\n\tSet(p *int)\n}\n\n")
	impl := func(name, recv string, tagG, tagT string) (getNil bool, setDerefs bool) {
		b.WriteString("type " + name + " struct{}\n\n")
		if ndChoice(tagG, 2) == 0 {
			b.WriteString("func (s " + recv + ") Get() *int { return nil }\n\n")
			getNil = true
		} else {
			b.WriteString("func (s " + recv + ") Get() *int { return new(int) }\n\n")
		}
		if ndChoice(tagT, 2) == 0 {
			b.WriteString("func (s " + recv + ") Set(p *int) { _ = *p }\n\n")
			setDerefs = true
		} else {
			b.WriteString("func (s " + recv + ") Set(p *int) {\n\tif p != nil {\n\t\t_ = *p\n\t}\n}\n\n")
		}
		return
	}
	g1, t1 := impl("S1", "*S1", "get1", "set1")
	g2, t2 := impl("S2", "S2", "get2", "set2")

	// what use() does with the interface value
	usesGetUnchecked, passesNil := false, false
	useBody := ""
	switch ndChoice("use", 4) {
	case 0:
		useBody = "\t_ = *i.Get()\n"
		usesGetUnchecked = true
	case 1:
		useBody = "\tif v := i.Get(); v != nil {\n\t\t_ = *v\n\t}\n"
	case 2:
		useBody = "\ti.Set(nil)\n"
		passesNil = true
	default:
		useBody = "\ti.Set(new(int))\n"
	}
	conv := ndChoice("conversion", ndParam("CONVERSIONS", 17))
	if conv == 8 {
		// the decorator shape uses the value through the second interface only
		ifaceTo.WriteString("func Use(i I) {}\n\n")
	} else {
		ifaceTo.WriteString("func Use(i I) {\n" + useBody + "}\n\n")
	}

	// which implementations are converted to I, and how
	flag0 := ndBool("flag0")
	var sees1, sees2 bool // use() runs with S1 / S2 in some execution
	switch conv {
	case 10: // package-level variable
		b.WriteString("var gi " + q + "I = &S1{}\n\n")
	case 11: // grouped named results: the second result is the one that is used
		b.WriteString("func mk2() (a, b " + q + "I) { return S2{}, &S1{} }\n\n")
	case 13: // variadic interface parameter
		b.WriteString("func all(is ..." + q + "I) {\n\tfor _, i := range is {\n\t\t" + q + "Use(i)\n\t}\n}\n\n")
	case 14: // append on a named slice type
		b.WriteString("type ilist []" + q + "I\n\n")
	case 16: // a multi-value call forwarded by a return statement
		b.WriteString("func mkS() (*S1, int) { return &S1{}, 1 }\n\nfunc mkI() (" + q + "I, int) { return mkS() }\n\n")
	case 5: // conversion at a return statement
		b.WriteString("func mk() " + q + "I { return &S1{} }\n\n")
	case 8: // decorator: a struct that embeds the interface is converted to ANOTHER interface
		b.WriteString("type J interface {\n\tGet() *int\n\tSet(p *int)\n}\n\ntype wrap struct{ " + q + "I }\n\nfunc useJ(i J) {\n" + useBody + "}\n\n")
	}
	b.WriteString("func Entry() {\n")
	switch conv {
	case 0: // only S1, by assignment
		b.WriteString("\tvar i " + q + "I = &S1{}\n\t" + q + "Use(i)\n")
		sees1 = true
	case 1: // only S2, as an argument
		b.WriteString("\t" + q + "Use(S2{})\n")
		sees2 = true
	case 2: // either, assignment in a branch
		b.WriteString("\tvar i " + q + "I = &S1{}\n\tif flag0 {\n\t\ti = S2{}\n\t}\n\t" + q + "Use(i)\n")
		sees1, sees2 = ndNot(flag0), flag0
	case 3: // both, as arguments
		b.WriteString("\t" + q + "Use(&S1{})\n\t" + q + "Use(S2{})\n")
		sees1, sees2 = true, true
	case 4: // short variable declaration that reuses an interface-typed variable
		b.WriteString("\tvar i " + q + "I\n\ti, n := &S1{}, 0\n\t_ = n\n\t" + q + "Use(i)\n")
		sees1 = true
	case 5: // return statement
		b.WriteString("\t" + q + "Use(mk())\n")
		sees1 = true
	case 6: // composite literal
		b.WriteString("\tis := []" + q + "I{&S1{}, S2{}}\n\t" + q + "Use(is[0])\n\t" + q + "Use(is[1])\n")
		sees1, sees2 = true, true
	case 7: // append
		b.WriteString("\tvar is []" + q + "I\n\tis = append(is, S2{})\n\t" + q + "Use(is[0])\n")
		sees2 = true
	case 8: // decorator
		b.WriteString("\tvar inner " + q + "I = &S1{}\n\tuseJ(wrap{inner})\n")
		sees1 = true
	case 9: // explicit conversion
		b.WriteString("\ti := " + q + "I(&S1{})\n\t" + q + "Use(i)\n")
		sees1 = true
	case 10:
		b.WriteString("\t" + q + "Use(gi)\n")
		sees1 = true
	case 11:
		b.WriteString("\t_, i := mk2()\n\t" + q + "Use(i)\n")
		sees1 = true
	case 12: // keyed slice literal
		b.WriteString("\tis := []" + q + "I{0: &S1{}}\n\t" + q + "Use(is[0])\n")
		sees1 = true
	case 13:
		b.WriteString("\tall(&S1{})\n")
		sees1 = true
	case 14:
		b.WriteString("\tvar l ilist\n\tl = append(l, S2{})\n\t" + q + "Use(l[0])\n")
		sees2 = true
	case 15: // call through a variable of function type
		b.WriteString("\tfn := " + q + "Use\n\tfn(&S1{})\n")
		sees1 = true
	default:
		b.WriteString("\ti, _ := mkI()\n\t" + q + "Use(i)\n")
		sees1 = true
	}
	b.WriteString("}\n")
	src := b.String()
	ndObserveStr("source", src)

	bad1 := (usesGetUnchecked && g1) || (passesNil && t1)
	bad2 := (usesGetUnchecked && g2) || (passesNil && t2)
	panics := ndOr(ndAnd(sees1, bad1), ndAnd(sees2, bad2))

	pipeAffiliation = true
	var results []pipeResult
	if split {
		ndObserveStr("source_q", dep.String())
		rq, facts := pipeAnalysePkg("m/q", "q.go", dep.String(), nil)
		rp, _ := pipeAnalysePkg("m/p", "p.go", src, []pipeDep{{path: "m/q", file: "q.go", src: dep.String(), facts: facts}})
		results = []pipeResult{rq, rp}
	} else {
		results = []pipeResult{pipeAnalyse(src)}
	}
	pipeAffiliation = false
	internal, reported := false, false
	for _, r := range results {
		ndObserveInt("diagnostics", len(r.diags))
		ndObserveStr("panicked", r.panicked)
		if r.panicked != "" || len(r.funcErrs) > 0 {
			internal = true
		}
		for _, d := range r.diags {
			ndObserveStr("diag", d.Message)
			reported = true
			if strings.Contains(d.Message, "INTERNAL") {
				internal = true
			}
		}
	}
	// the report is located at the dereference that would panic: `*i.Get()` in the user of the interface, or `*p` in an
	// implementation of Set
	atDeref := false
	for k, r := range results {
		text := src
		if split && k == 0 {
			text = dep.String()
		}
		for _, d := range r.diags {
			pos := r.fset.Position(d.Pos)
			lines := strings.Split(text, "\n")
			if split && strings.HasSuffix(pos.Filename, "q.go") {
				lines = strings.Split(dep.String(), "\n")
			}
			if pos.Line >= 1 && pos.Line <= len(lines) && (strings.Contains(lines[pos.Line-1], "*i.Get()") || strings.Contains(lines[pos.Line-1], "_ = *p")) {
				atDeref = true
			}
		}
	}
	ndAssert("P09.A3.no_internal_failure", !internal)
	ndAssert("P09.A1b.the_report_is_located_at_the_dereference", ndImplies(panics, atDeref))
	ndAssert("P09.A1.nil_through_dynamic_dispatch_is_reported", ndImplies(panics, reported))
	if !bad1 && !bad2 {
		ndAssert("P09.A2.well_behaved_implementations_are_not_reported", !reported)
	}
}
