package accumulation

// P01X: the C01 grammar spread over two packages. The callee and the package-level pointer live in the
// dependency m/q (analysed first; its facts - inferred map, nolint ranges - are handed to the importer), the
// entry function in m/p refers to them as q.Callee and q.G. The importer sees the dependency through a fresh
// type-check of its source (fresh type objects, as with export data). Same obligations as Harness_P01; a
// diagnostic may come from either package's analysis. In addition (C03 at source level) the same program
// analysed as ONE package must yield the same number of diagnostics.

//verif:use zz_verif_pipe.go

import (
	"strconv"
	"strings"
)

func p01xDep(kind int, helper bool) (string, int) {
	var b strings.Builder
	b.WriteString("package q\n\nvar Calleeflag bool\nvar G *int\n\n") // lines 1-5
	line := 5
	emit := func(s string) int { b.WriteString(s + "\n"); line++; return line }
	deref := 0
	if kind >= 0 {
		if helper {
			// the exported function forwards to an unexported helper: the flow between the two exported sites
			// (parameter and result of Callee) runs through sites that are not exported
			emit("func Callee(a *int) *int { return helper(a) }")
			emit("")
			emit("func helper(a *int) *int {")
		} else {
			emit("func Callee(a *int) *int {")
		}
		switch kind {
		case 0:
			emit("\treturn a")
		case 1:
			emit("\treturn nil")
		case 2:
			emit("\treturn new(int)")
		case 3:
			deref = emit("\t_ = *a")
			emit("\treturn a")
		case 4:
			emit("\tif a == nil {")
			emit("\t\treturn new(int)")
			emit("\t}")
			emit("\treturn a")
		case 5:
			emit("\tif Calleeflag {")
			emit("\t\treturn nil")
			emit("\t}")
			emit("\treturn a")
		default:
			emit("\treturn G")
		}
		emit("}")
	}
	return b.String(), deref
}

func Harness_P01X() {
	n := ndParam("STMTS", 2)
	compound := ndParam("COMPOUND", 5)
	g := &p01Gen{x: true, y: true, g: true, live: true, calleeKind: -1, simple: ndParam("SIMPLE", 9)}
	g.emit("package p")
	g.emit("import \"m/q\"")
	g.emit("var flag0, flag1, flag2, flag3 bool")
	g.emit("var _ = q.Calleeflag")
	g.emit("")
	g.emit("func Entry() {")
	g.emit("\tvar x, y *int")
	for k := 0; k < n; k++ {
		g.stmt(compound)
	}
	g.emit("\t_, _ = x, y")
	g.emit("}")
	src := strings.NewReplacer("callee(", "q.Callee(", "x = g\n", "x = q.G\n", "g = x\n", "q.G = x\n", "*g\n", "*q.G\n").Replace(g.b.String())
	dep, calleeDeref := p01xDep(g.calleeKind, g.calleeKind >= 0 && ndChoice("unexported_helper", 2) == 1)
	ndObserveStr("source_q", dep)
	ndObserveStr("source_p", src)

	rq, facts := pipeAnalysePkg("m/q", "q.go", dep, nil)
	rp, _ := pipeAnalysePkg("m/p", "p.go", src, []pipeDep{{path: "m/q", file: "q.go", src: dep, facts: facts}})
	ndObserveInt("diagnostics_q", len(rq.diags))
	ndObserveInt("diagnostics_p", len(rp.diags))
	internal := rq.panicked != "" || len(rq.funcErrs) > 0 || rp.panicked != "" || len(rp.funcErrs) > 0
	at := map[string]bool{}
	for _, r := range []pipeResult{rq, rp} {
		for _, d := range r.diags {
			ndObserveStr("diag", d.Message)
			if strings.Contains(d.Message, "INTERNAL") {
				internal = true
			}
			pos := r.fset.Position(d.Pos)
			at[pos.Filename+":"+strconv.Itoa(pos.Line)] = true
		}
	}
	// C03 at source level: the same program as ONE package - the dependency's declarations first, as the modular
	// analysis sees them - must get a report iff the two-package split does
	entry := g.b.String()
	entry = entry[strings.Index(entry, "func Entry()"):]
	calleeText := strings.NewReplacer("package q\n", "", "Calleeflag", "calleeflag", "var G ", "var g ", "func Callee(", "func callee(", "return G\n", "return g\n").Replace(dep)
	whole := "package p\n\nvar flag0, flag1, flag2, flag3 bool\n" + calleeText + "\n" + entry
	rw := pipeAnalyse(whole)
	ndObserveInt("diagnostics_whole_program", len(rw.diags))
	ndAssert("C03.X.two_package_split_is_reported_iff_the_whole_program_is", (len(rw.diags) > 0) == (len(rq.diags)+len(rp.diags) > 0))
	ndAssert("C03.X.two_package_split_reports_as_many_diagnostics_as_the_whole_program", len(rw.diags) == len(rq.diags)+len(rp.diags))
	ndObserveStr("panicked", rq.panicked+rp.panicked)
	ndAssert("P01.A4.no_internal_failure", !internal)
	reported := len(rq.diags)+len(rp.diags) > 0
	ndAssert("P01.A1.a_reachable_nil_dereference_is_reported", ndImplies(g.panics, reported))
	nUnchecked := len(g.unchecked)
	if calleeDeref > 0 {
		nUnchecked++
	}
	if nUnchecked == 0 {
		ndAssert("P01.A2.a_program_with_only_nil_checked_dereferences_is_not_reported", !reported)
	}
	if nUnchecked == 1 {
		if calleeDeref > 0 {
			ndAssert("P01.A3.the_only_unchecked_dereference_is_reported_at_its_line", ndImplies(g.panics, at["q.go:"+strconv.Itoa(calleeDeref)]))
		} else {
			ndAssert("P01.A3.the_only_unchecked_dereference_is_reported_at_its_line", ndImplies(g.uncheckedP[0], at["p.go:"+strconv.Itoa(g.unchecked[0])]))
		}
	}
}
