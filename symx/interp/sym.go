// Symbolic scalars for symx: SMT-LIB2 terms standing in for Go bools, integers and strings.

package interp

import (
	"fmt"
	"go/token"
	"go/types"
	"strings"
)

// sym is a symbolic scalar. kind is the Go basic kind of the value
// (types.Bool, types.Int … types.Uintptr, types.String); t is its SMT-LIB2 term.
// Integers are bit-vectors of the Go width (int/uint/uintptr = 64), strings are
// SMT Strings (assumption: ASCII only), bools are Bool.
type sym struct {
	kind types.BasicKind
	t    string
}

func (s sym) String() string { return fmt.Sprintf("sym<%s>{%s}", kindName(s.kind), s.t) }

func kindName(k types.BasicKind) string { return types.Typ[k].Name() }

func bvWidth(k types.BasicKind) int {
	switch k {
	case types.Int8, types.Uint8:
		return 8
	case types.Int16, types.Uint16:
		return 16
	case types.Int32, types.Uint32:
		return 32
	case types.Int, types.Int64, types.Uint, types.Uint64, types.Uintptr:
		return 64
	}
	return 0
}

func isSignedKind(k types.BasicKind) bool {
	switch k {
	case types.Int, types.Int8, types.Int16, types.Int32, types.Int64:
		return true
	}
	return false
}

func sortOfKind(k types.BasicKind) string {
	switch k {
	case types.Bool:
		return "Bool"
	case types.String:
		return "String"
	}
	if w := bvWidth(k); w > 0 {
		return fmt.Sprintf("(_ BitVec %d)", w)
	}
	panic(engineError{fmt.Sprintf("no SMT sort for kind %v", k)})
}

// kindOfValue returns the basic kind of a concrete or symbolic scalar.
func kindOfValue(v value) (types.BasicKind, bool) {
	switch v := v.(type) {
	case sym:
		return v.kind, true
	case bool:
		return types.Bool, true
	case string:
		return types.String, true
	case int:
		return types.Int, true
	case int8:
		return types.Int8, true
	case int16:
		return types.Int16, true
	case int32:
		return types.Int32, true
	case int64:
		return types.Int64, true
	case uint:
		return types.Uint, true
	case uint8:
		return types.Uint8, true
	case uint16:
		return types.Uint16, true
	case uint32:
		return types.Uint32, true
	case uint64:
		return types.Uint64, true
	case uintptr:
		return types.Uintptr, true
	}
	return 0, false
}

func bvLit(u uint64, w int) string {
	if w < 64 {
		u &= (uint64(1) << uint(w)) - 1
	}
	return fmt.Sprintf("(_ bv%d %d)", u, w)
}

// smtString renders a Go string as an SMT-LIB 2.6 string literal.
func smtString(s string) string {
	var b strings.Builder
	b.WriteByte('"')
	for i := 0; i < len(s); i++ {
		c := s[i]
		switch {
		case c == '"':
			b.WriteString(`""`)
		case c == '\\':
			b.WriteString(`\u{5c}`)
		case c >= 0x20 && c < 0x7f:
			b.WriteByte(c)
		default:
			fmt.Fprintf(&b, `\u{%x}`, c)
		}
	}
	b.WriteByte('"')
	return b.String()
}

// termOf returns the SMT term of a scalar value (concrete or symbolic).
func termOf(v value) string {
	switch v := v.(type) {
	case sym:
		return v.t
	case bool:
		if v {
			return "true"
		}
		return "false"
	case string:
		return smtString(v)
	}
	k, ok := kindOfValue(v)
	if !ok {
		panic(engineError{fmt.Sprintf("termOf: not a scalar: %T", v)})
	}
	var u uint64
	if isSignedKind(k) {
		u = uint64(asInt64(v))
	} else {
		u = asUint64x(v)
	}
	return bvLit(u, bvWidth(k))
}

func asUint64x(x value) uint64 {
	switch x := x.(type) {
	case uint:
		return uint64(x)
	case uint8:
		return uint64(x)
	case uint16:
		return uint64(x)
	case uint32:
		return uint64(x)
	case uint64:
		return x
	case uintptr:
		return uint64(x)
	}
	return uint64(asInt64(x))
}

func isSym(v value) bool { _, ok := v.(sym); return ok }

func mkNot(t string) string {
	switch t {
	case "true":
		return "false"
	case "false":
		return "true"
	}
	if strings.HasPrefix(t, "(not ") && strings.HasSuffix(t, ")") && balanced(t[5:len(t)-1]) {
		return t[5 : len(t)-1]
	}
	return "(not " + t + ")"
}

// balanced reports whether s is a single well-formed s-expression (or atom).
func balanced(s string) bool {
	if s == "" {
		return false
	}
	depth := 0
	inStr := false
	for i := 0; i < len(s); i++ {
		c := s[i]
		if inStr {
			if c == '"' {
				inStr = false
			}
			continue
		}
		switch c {
		case '"':
			inStr = true
		case '(':
			depth++
		case ')':
			depth--
			if depth == 0 && i != len(s)-1 {
				return false
			}
			if depth < 0 {
				return false
			}
		case ' ':
			if depth == 0 {
				return false
			}
		}
	}
	return depth == 0 && !inStr
}

func mkAnd(a, b string) string {
	if a == "true" {
		return b
	}
	if b == "true" {
		return a
	}
	if a == "false" || b == "false" {
		return "false"
	}
	return "(and " + a + " " + b + ")"
}

func mkOr(a, b string) string {
	if a == "false" {
		return b
	}
	if b == "false" {
		return a
	}
	if a == "true" || b == "true" {
		return "true"
	}
	return "(or " + a + " " + b + ")"
}

func symBool(t string) value {
	switch t {
	case "true":
		return true
	case "false":
		return false
	}
	return sym{types.Bool, t}
}

// symBinop implements binop when at least one operand is symbolic.
func (i *interpreter) symBinop(op token.Token, x, y value) value {
	kx, okx := kindOfValue(x)
	ky, oky := kindOfValue(y)
	if !okx || !oky {
		panic(engineError{fmt.Sprintf("symbolic binop %s on non-scalar %T, %T", op, x, y)})
	}
	tx, ty := i.nm(kx, termOf(x)), i.nm(ky, termOf(y))
	if op == token.SHL || op == token.SHR {
		// shift count may have any integer kind; bring it to x's width.
		wx, wy := bvWidth(kx), bvWidth(ky)
		if isSignedKind(ky) {
			// a negative count panics at run time
			neg := fmt.Sprintf("(bvslt %s %s)", ty, bvLit(0, wy))
			if i.truth(symBool(neg)) {
				panic(targetRuntimeError("negative shift amount"))
			}
		}
		cnt := ty
		sat := "false"
		switch {
		case wy < wx:
			cnt = fmt.Sprintf("((_ zero_extend %d) %s)", wx-wy, ty)
		case wy > wx:
			// counts >= 2^wx saturate
			sat = fmt.Sprintf("(bvuge %s %s)", ty, bvLit(uint64(wx), wy))
			cnt = fmt.Sprintf("((_ extract %d 0) %s)", wx-1, ty)
		}
		var r string
		if op == token.SHL {
			r = fmt.Sprintf("(bvshl %s %s)", tx, cnt)
			if sat != "false" {
				r = fmt.Sprintf("(ite %s %s %s)", sat, bvLit(0, wx), r)
			}
		} else if isSignedKind(kx) {
			r = fmt.Sprintf("(bvashr %s %s)", tx, cnt)
			if sat != "false" {
				r = fmt.Sprintf("(ite %s (bvashr %s %s) %s)", sat, tx, bvLit(uint64(wx-1), wx), r)
			}
		} else {
			r = fmt.Sprintf("(bvlshr %s %s)", tx, cnt)
			if sat != "false" {
				r = fmt.Sprintf("(ite %s %s %s)", sat, bvLit(0, wx), r)
			}
		}
		return sym{kx, r}
	}
	if kx != ky {
		panic(engineError{fmt.Sprintf("symbolic binop %s on mixed kinds %v, %v", op, kindName(kx), kindName(ky))})
	}
	k := kx
	switch k {
	case types.Bool:
		switch op {
		case token.EQL:
			return symBool("(= " + tx + " " + ty + ")")
		case token.NEQ:
			return symBool("(not (= " + tx + " " + ty + "))")
		case token.AND, token.LAND:
			return symBool(mkAnd(tx, ty))
		case token.OR, token.LOR:
			return symBool(mkOr(tx, ty))
		}
	case types.String:
		switch op {
		case token.ADD:
			return sym{types.String, "(str.++ " + tx + " " + ty + ")"}
		case token.EQL:
			return symBool("(= " + tx + " " + ty + ")")
		case token.NEQ:
			return symBool("(not (= " + tx + " " + ty + "))")
		case token.LSS:
			return symBool("(str.< " + tx + " " + ty + ")")
		case token.LEQ:
			return symBool("(str.<= " + tx + " " + ty + ")")
		case token.GTR:
			return symBool("(str.< " + ty + " " + tx + ")")
		case token.GEQ:
			return symBool("(str.<= " + ty + " " + tx + ")")
		}
	default:
		w := bvWidth(k)
		if w == 0 {
			break
		}
		sg := isSignedKind(k)
		pick := func(s, u string) string {
			if sg {
				return s
			}
			return u
		}
		bin := func(f string) value { return sym{k, "(" + f + " " + tx + " " + ty + ")"} }
		cmp := func(f string) value { return symBool("(" + f + " " + tx + " " + ty + ")") }
		switch op {
		case token.ADD:
			return bin("bvadd")
		case token.SUB:
			return bin("bvsub")
		case token.MUL:
			return bin("bvmul")
		case token.QUO, token.REM:
			if i.truth(symBool("(= " + ty + " " + bvLit(0, w) + ")")) {
				panic(targetRuntimeError("integer divide by zero"))
			}
			if op == token.QUO {
				return bin(pick("bvsdiv", "bvudiv"))
			}
			return bin(pick("bvsrem", "bvurem"))
		case token.AND:
			return bin("bvand")
		case token.OR:
			return bin("bvor")
		case token.XOR:
			return bin("bvxor")
		case token.AND_NOT:
			return sym{k, "(bvand " + tx + " (bvnot " + ty + "))"}
		case token.EQL:
			return cmp("=")
		case token.NEQ:
			return symBool("(not (= " + tx + " " + ty + "))")
		case token.LSS:
			return cmp(pick("bvslt", "bvult"))
		case token.LEQ:
			return cmp(pick("bvsle", "bvule"))
		case token.GTR:
			return cmp(pick("bvsgt", "bvugt"))
		case token.GEQ:
			return cmp(pick("bvsge", "bvuge"))
		}
	}
	panic(engineError{fmt.Sprintf("unsupported symbolic binop %s on %v", op, kindName(k))})
}

func (i *interpreter) symUnop(op token.Token, x sym) value {
	switch op {
	case token.NOT:
		return symBool(mkNot(x.t))
	case token.SUB:
		if bvWidth(x.kind) > 0 {
			return sym{x.kind, "(bvneg " + x.t + ")"}
		}
	case token.XOR:
		if bvWidth(x.kind) > 0 {
			return sym{x.kind, "(bvnot " + x.t + ")"}
		}
	}
	panic(engineError{fmt.Sprintf("unsupported symbolic unop %s on %v", op, kindName(x.kind))})
}

// symConv converts a symbolic scalar to the basic type dst.
func (i *interpreter) symConv(dst *types.Basic, x sym) value {
	dk := dst.Kind()
	if dk == x.kind {
		return x
	}
	if x.kind == types.String || dk == types.String || x.kind == types.Bool || dk == types.Bool {
		if x.kind == dk {
			return x
		}
		panic(engineError{fmt.Sprintf("unsupported symbolic conversion %v -> %v", kindName(x.kind), kindName(dk))})
	}
	ws, wd := bvWidth(x.kind), bvWidth(dk)
	if ws == 0 || wd == 0 {
		panic(engineError{fmt.Sprintf("unsupported symbolic conversion %v -> %v", kindName(x.kind), kindName(dk))})
	}
	switch {
	case ws == wd:
		return sym{dk, x.t}
	case ws > wd:
		return sym{dk, fmt.Sprintf("((_ extract %d 0) %s)", wd-1, x.t)}
	default:
		if isSignedKind(x.kind) {
			return sym{dk, fmt.Sprintf("((_ sign_extend %d) %s)", wd-ws, x.t)}
		}
		return sym{dk, fmt.Sprintf("((_ zero_extend %d) %s)", wd-ws, x.t)}
	}
}

// symLen returns len(s) of a symbolic string as a symbolic int.
func symLen(s sym) value {
	return sym{types.Int, "((_ int2bv 64) (str.len " + s.t + "))"}
}

// eqValue returns x == y for type t as a concrete bool or a symbolic Bool.
// It mirrors equals() but tolerates symbolic scalars anywhere inside.
func (i *interpreter) eqValue(t types.Type, x, y value) value {
	if isSym(x) || isSym(y) {
		return i.symBinop(token.EQL, x, y)
	}
	switch x := x.(type) {
	case structure:
		y := y.(structure)
		tStruct := t.Underlying().(*types.Struct)
		acc := "true"
		for k, n := 0, tStruct.NumFields(); k < n; k++ {
			f := tStruct.Field(k)
			if f.Name() == "_" {
				continue
			}
			r := i.eqValue(f.Type(), x[k], y[k])
			switch r := r.(type) {
			case bool:
				if !r {
					return false
				}
			case sym:
				acc = mkAnd(acc, r.t)
			}
		}
		return symBool(acc)
	case array:
		y := y.(array)
		tElt := t.Underlying().(*types.Array).Elem()
		acc := "true"
		for k := range x {
			r := i.eqValue(tElt, x[k], y[k])
			switch r := r.(type) {
			case bool:
				if !r {
					return false
				}
			case sym:
				acc = mkAnd(acc, r.t)
			}
		}
		return symBool(acc)
	case iface:
		y := y.(iface)
		if !sameType(x.t, y.t) {
			return false
		}
		if x.t == nil {
			return true
		}
		return i.eqValue(x.t, x.v, y.v)
	}
	return equals(t, x, y)
}
