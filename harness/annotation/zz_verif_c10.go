package annotation

// C10-K1: annotation algebra (DESIGN.md section 4, C10). Kernel (real code): Val.makeNilable /
// makeNonNil / makeDeepNilable / makeDeepNonNil, nilabilitySet.checkNilability,
// (*ObservedMap).Range. All four flags of a Val, every isFinalVal argument and both type-default
// predicates are symbolic Bools: the domain is complete (no bound on values), only the number of
// chained operations (<= 3) and map entries (<= 2 per map) is bounded.

import (
	"go/token"
	"go/types"
)

//verif:stub go.uber.org/nilaway/annotation.TypeIsDefaultNilable = c10DefaultNilable
//verif:stub go.uber.org/nilaway/annotation.TypeIsDeepDefaultNilable = c10DeepDefaultNilable
//verif:stub go.uber.org/nilaway/annotation.c10Type = c10TypeSym

var ndHarnesses = map[string]func(){
	"Harness_C10_Algebra": Harness_C10_Algebra,
	"Harness_C10_Check":   Harness_C10_Check,
	"Harness_C10_Range":   Harness_C10_Range,
}

var c10DefNil, c10DefDeep bool

func c10DefaultNilable(t types.Type) bool     { return c10DefNil }
func c10DeepDefaultNilable(t types.Type) bool { return c10DefDeep }

func c10ReadVal(name string) Val {
	return Val{IsNilable: ndBool(name + ".nilable"), IsDeepNilable: ndBool(name + ".deep"), IsNilableSet: ndBool(name + ".set"), IsDeepNilableSet: ndBool(name + ".deepset")}
}

func c10ObserveVal(tag string, v Val) {
	ndObserveBool(tag+".nilable", v.IsNilable)
	ndObserveBool(tag+".deep", v.IsDeepNilable)
	ndObserveBool(tag+".set", v.IsNilableSet)
	ndObserveBool(tag+".deepset", v.IsDeepNilableSet)
}

func Harness_C10_Algebra() {
	v0 := c10ReadVal("v")
	v := v0
	n := 1 + ndChoice("n", ndParam("OPS", 3))
	for k := 0; k < n; k++ {
		final := ndBool("final")
		before := v
		op := ndChoice("op", 4)
		switch op {
		case 0:
			v = v.makeNilable(final)
		case 1:
			v = v.makeNonNil(final)
		case 2:
			v = v.makeDeepNilable(final)
		case 3:
			v = v.makeDeepNonNil(final)
		}
		shallow := op < 2
		want := op == 0 || op == 2
		if shallow {
			ndAssert("C10.K1.explicit_shallow_value_is_never_changed", ndImplies(before.IsNilableSet, ndAnd(ndIff(v.IsNilable, before.IsNilable), v.IsNilableSet)))
			ndAssert("C10.K1.unset_shallow_value_takes_the_new_value", ndImplies(ndNot(before.IsNilableSet), ndAnd(ndIff(v.IsNilable, want), ndIff(v.IsNilableSet, final))))
			ndAssert("C10.K1.shallow_op_leaves_deep_part_alone", ndAnd(ndIff(v.IsDeepNilable, before.IsDeepNilable), ndIff(v.IsDeepNilableSet, before.IsDeepNilableSet)))
		} else {
			ndAssert("C10.K1.explicit_deep_value_is_never_changed", ndImplies(before.IsDeepNilableSet, ndAnd(ndIff(v.IsDeepNilable, before.IsDeepNilable), v.IsDeepNilableSet)))
			ndAssert("C10.K1.unset_deep_value_takes_the_new_value", ndImplies(ndNot(before.IsDeepNilableSet), ndAnd(ndIff(v.IsDeepNilable, want), ndIff(v.IsDeepNilableSet, final))))
			ndAssert("C10.K1.deep_op_leaves_shallow_part_alone", ndAnd(ndIff(v.IsNilable, before.IsNilable), ndIff(v.IsNilableSet, before.IsNilableSet)))
		}
	}
	// whatever sequence follows, an explicit annotation survives
	ndAssert("C10.K1.explicit_annotation_survives_any_sequence", ndImplies(v0.IsNilableSet, ndAnd(v.IsNilableSet, ndIff(v.IsNilable, v0.IsNilable))))
	ndAssert("C10.K1.explicit_deep_annotation_survives_any_sequence", ndImplies(v0.IsDeepNilableSet, ndAnd(v.IsDeepNilableSet, ndIff(v.IsDeepNilable, v0.IsDeepNilable))))
	c10ObserveVal("final", v)
}

// c10Type: the type handed to checkNilability; natively a real type whose defaults are known,
// under symx an opaque value (the two default predicates are symbolic).
func c10Type(defNil, defDeep bool) types.Type {
	switch {
	case defNil && defDeep:
		return types.NewSlice(types.NewSlice(types.Typ[types.Int])) // [][]int: nilable, deeply nilable
	case defNil:
		return types.NewSlice(types.Typ[types.Int]) // []int: nilable, elements not
	case defDeep:
		return types.NewPointer(types.NewSlice(types.Typ[types.Int])) // *[]int: not default nilable, deep default nilable
	}
	return types.NewPointer(types.Typ[types.Int])
}

func c10TypeSym(defNil, defDeep bool) types.Type {
	c10DefNil, c10DefDeep = defNil, defDeep
	return nil
}

func Harness_C10_Check() {
	EmptyVal = Val{}
	present := ndChoice("present", 2) == 1
	v := c10ReadVal("v")
	set := nilabilitySet{}
	if present {
		set["x"] = v
	}
	if ndChoice("other", 2) == 1 {
		set["y"] = c10ReadVal("other")
	}
	// the default predicates are concrete choices here so that the native run can pick a real type
	defNil := ndChoice("type_default_nilable", 2) == 1
	defDeep := ndChoice("type_default_deep_nilable", 2) == 1
	got := set.checkNilability("x", c10Type(defNil, defDeep))
	c10ObserveVal("got", got)
	if !present {
		v = Val{}
	}
	ndAssert("C10.K1.defaults_never_mark_a_site_as_annotated", ndAnd(ndIff(got.IsNilableSet, v.IsNilableSet), ndIff(got.IsDeepNilableSet, v.IsDeepNilableSet)))
	ndAssert("C10.K1.explicit_value_beats_type_default", ndImplies(v.IsNilableSet, ndIff(got.IsNilable, v.IsNilable)))
	ndAssert("C10.K1.explicit_deep_value_beats_type_default", ndImplies(v.IsDeepNilableSet, ndIff(got.IsDeepNilable, v.IsDeepNilable)))
	ndAssert("C10.K1.unannotated_site_gets_type_default", ndImplies(ndNot(v.IsNilableSet), ndIff(got.IsNilable, ndOr(v.IsNilable, defNil))))
	ndAssert("C10.K1.unannotated_site_gets_deep_type_default", ndImplies(ndNot(v.IsDeepNilableSet), ndIff(got.IsDeepNilable, ndOr(v.IsDeepNilable, defDeep))))
}

type c10Call struct {
	key  Key
	deep bool
	val  bool
}

// Harness_C10_Range: Range replays exactly the explicitly set flags, with the annotated values.
func Harness_C10_Range() {
	pkg := (*types.Package)(nil)
	m := &ObservedMap{
		fieldAnnMap:           map[*types.Var]Val{},
		funcRetAnnMap:         map[*types.Func][]Val{},
		funcRecvAnnMap:        map[*types.Func]Val{},
		deepTypeAnnMap:        map[*types.TypeName]Val{},
		globalVarsAnnMap:      map[*types.Var]Val{},
		funcCallSiteRetAnnMap: map[CallSite][]Val{},
	}
	type entry struct {
		obj  types.Object
		idx  int
		v    Val
		kind int
	}
	var entries []entry
	n := 1 + ndChoice("n", ndParam("ENTRIES", 3))
	for k := 0; k < n; k++ {
		v := c10ReadVal("v")
		kind := ndChoice("kind", 6)
		pos := token.Pos(10 + k)
		switch kind {
		case 0:
			o := types.NewVar(pos, pkg, "fld", nil)
			m.fieldAnnMap[o] = v
			entries = append(entries, entry{o, 0, v, kind})
		case 1:
			o := types.NewFunc(pos, pkg, "f", nil)
			v2 := c10ReadVal("v2")
			m.funcRetAnnMap[o] = []Val{v, v2}
			entries = append(entries, entry{o, 0, v, kind}, entry{o, 1, v2, kind})
		case 2:
			o := types.NewFunc(pos, pkg, "m", nil)
			m.funcRecvAnnMap[o] = v
			entries = append(entries, entry{o, 0, v, kind})
		case 3:
			o := types.NewTypeName(pos, pkg, "T", nil)
			m.deepTypeAnnMap[o] = v
			entries = append(entries, entry{o, 0, v, kind})
		case 4:
			o := types.NewVar(pos, pkg, "g", nil)
			m.globalVarsAnnMap[o] = v
			entries = append(entries, entry{o, 0, v, kind})
		case 5:
			o := types.NewFunc(pos, pkg, "callee", nil)
			m.funcCallSiteRetAnnMap[CallSite{Fun: o, Location: token.Position{Filename: "f.go", Line: k + 1}}] = []Val{v}
			entries = append(entries, entry{o, 0, v, kind})
		}
	}
	var calls []c10Call
	m.Range(func(key Key, isDeep bool, val bool) { calls = append(calls, c10Call{key, isDeep, val}) })
	ndObserveInt("calls", len(calls))
	// expected number of calls = number of set flags
	for _, e := range entries {
		for _, deep := range []bool{false, true} {
			set, val := e.v.IsNilableSet, e.v.IsNilable
			if deep {
				set, val = e.v.IsDeepNilableSet, e.v.IsDeepNilable
			}
			cnt := 0
			okVal := true
			for _, c := range calls {
				if c.key.Object() != e.obj || c.deep != deep {
					continue
				}
				if rk, ok := c.key.(*RetAnnotationKey); ok && rk.RetNum != e.idx {
					continue
				}
				cnt++
				okVal = ndAnd(okVal, ndIff(c.val, val))
			}
			// cnt is concrete on every path (Range branched on the flag); it must agree with the flag
			ndAssert("C10.K1.range_replays_exactly_the_explicit_annotations", ndIff(cnt == 1, set))
			ndAssert("C10.K1.range_never_replays_twice", cnt <= 1)
			ndAssert("C10.K1.range_replays_the_annotated_value", okVal)
		}
	}
}
