package global

import (
	"go.uber.org/nilaway/annotation"
	"golang.org/x/tools/go/analysis"
)

// VerifRun lets harnesses of other packages run this analyzer's (unexported) run function.
func VerifRun(p *analysis.Pass) ([]annotation.FullTrigger, error) { return run(p) }
