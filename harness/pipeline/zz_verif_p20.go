package accumulation

// C20 at source level: inferred contracts end to end. The pipeline additionally builds the package's real SSA,
// runs the REAL inferContracts on every one-parameter/one-result function, hands the contracts to the assertion
// tree (call-site sites) and runs the REAL duplication of the callee's triggers to its callers.
//
//	func callee(p *int) *int { one of 10 bodies }    (nil-propagating, identity, guarded identity, nil, anti, fresh; four more with the nil check spelled `nil == p` / `nil != p`)
//	func Entry() { x := A; U }                        A ::= nil | new(int) | nil or new(int) behind an opaque flag; or the literal nil handed over directly, callee(nil)
//	   U ::= _ = *callee(x) | _ = *callee(callee(x)) | y := callee(x); if y != nil { _ = *y } | y := callee(x); _ = *y
//
// Oracle: the callee's semantics on "x is nil" (symbolic through the flag). P20.A1: Entry can dereference nil =>
// reported. P20.A2: the callee maps non-nil to non-nil AND the argument is never nil => no diagnostic (this is the
// precision the contract exists for; only asserted when a nonnil->nonnil contract was actually inferred, which is
// observed). P20.A3: nothing internal fails.

//verif:use zz_verif_pipe.go

import "strings"

func Harness_P20() {
	var b strings.Builder
	b.WriteString("package p\n\nvar flag0 bool\n\n")
	kind := ndChoice("callee", 10)
	b.WriteString("func callee(p *int) *int {\n")
	// out(pnil) = "the result is nil"
	var out func(pnil bool) bool
	nonnilToNonnil := false
	switch kind {
	case 0:
		b.WriteString("\tif p == nil {\n\t\treturn nil\n\t}\n\treturn new(int)\n")
		out, nonnilToNonnil = func(pnil bool) bool { return pnil }, true
	case 1:
		b.WriteString("\treturn p\n")
		out, nonnilToNonnil = func(pnil bool) bool { return pnil }, true
	case 2:
		b.WriteString("\tif p != nil {\n\t\treturn p\n\t}\n\treturn nil\n")
		out, nonnilToNonnil = func(pnil bool) bool { return pnil }, true
	case 3:
		b.WriteString("\treturn nil\n")
		out = func(pnil bool) bool { return true }
	case 4:
		b.WriteString("\tif p == nil {\n\t\treturn new(int)\n\t}\n\treturn nil\n")
		out = func(pnil bool) bool { return ndNot(pnil) }
	case 5:
		b.WriteString("\treturn new(int)\n")
		out, nonnilToNonnil = func(pnil bool) bool { return false }, true
	case 6:
		b.WriteString("\tif nil == p {\n\t\treturn nil\n\t}\n\treturn new(int)\n")
		out, nonnilToNonnil = func(pnil bool) bool { return pnil }, true
	case 7: // the anti shape with the operands swapped
		b.WriteString("\tif nil == p {\n\t\treturn new(int)\n\t}\n\treturn nil\n")
		out = func(pnil bool) bool { return ndNot(pnil) }
	case 8:
		b.WriteString("\tif nil != p {\n\t\treturn p\n\t}\n\treturn nil\n")
		out, nonnilToNonnil = func(pnil bool) bool { return pnil }, true
	default:
		b.WriteString("\tif nil != p {\n\t\treturn nil\n\t}\n\treturn new(int)\n")
		out = func(pnil bool) bool { return ndNot(pnil) }
	}
	b.WriteString("}\n\n")

	flag0 := ndBool("flag0")
	var xnil bool
	argNeverNil := false
	b.WriteString("func Entry() {\n")
	arg := "x"
	switch ndChoice("argument", 4) {
	case 3: // the nil literal handed over directly (a call whose arguments are all literals)
		arg = "nil"
		xnil = true
	case 0:
		b.WriteString("\tvar x *int\n")
		xnil = true
	case 1:
		b.WriteString("\tx := new(int)\n")
		xnil, argNeverNil = false, true
	default:
		b.WriteString("\tx := new(int)\n\tif flag0 {\n\t\tx = nil\n\t}\n")
		xnil = flag0
	}
	var panics bool
	switch ndChoice("use", 4) {
	case 0:
		b.WriteString("\t_ = *callee(" + arg + ")\n")
		panics = out(xnil)
	case 1:
		b.WriteString("\t_ = *callee(callee(" + arg + "))\n")
		panics = out(out(xnil))
	case 2:
		b.WriteString("\ty := callee(" + arg + ")\n\tif y != nil {\n\t\t_ = *y\n\t}\n")
		panics = false
	default:
		b.WriteString("\ty := callee(" + arg + ")\n\t_ = *y\n")
		panics = out(xnil)
	}
	b.WriteString("}\n")
	src := b.String()
	ndObserveStr("source", src)

	pipeContracts = true
	r := pipeAnalyse(src)
	pipeContracts = false
	ndObserveInt("contracts", r.contracts)
	ndObserveInt("diagnostics", len(r.diags))
	ndObserveStr("panicked", r.panicked)
	internal := r.panicked != "" || len(r.funcErrs) > 0
	for _, d := range r.diags {
		ndObserveStr("diag", d.Message)
		if strings.Contains(d.Message, "INTERNAL") {
			internal = true
		}
	}
	ndAssert("P20.A3.no_internal_failure", !internal)
	reported := len(r.diags) > 0
	ndAssert("P20.A1.a_nil_result_of_a_contracted_call_that_is_dereferenced_is_reported", ndImplies(panics, reported))
	if nonnilToNonnil && argNeverNil && r.contracts > 0 {
		ndAssert("P20.A2.a_true_contract_keeps_non_nil_arguments_clean", !reported)
	}
}
