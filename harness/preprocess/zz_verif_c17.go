package preprocess

// C17 (templ part): inlineTemplComponentFuncLit must not write into the function literal's CFG,
// which the ctrlflow analyzer shares with every other analyzer of the run.
//
// Kernel (real code): (*Preprocessor).CFG on a function of the shape
//   func C() templ.Component { return templruntime.GeneratedTemplate(func(in) error { ...; return nil }) }
// -> extractTemplComponentFuncLit (type-checker queries on a hand-built types.Info),
// inlineTemplComponentFuncLit, copyGraph. The literal's CFG has a choice of 1..3 live blocks with
// 0..2 return statements each.

import (
	"go/ast"
	"go/token"
	"go/types"

	"go.uber.org/nilaway/util/analysishelper"
	"golang.org/x/tools/go/analysis"
	"golang.org/x/tools/go/analysis/passes/ctrlflow"
	"golang.org/x/tools/go/cfg"
)

//verif:stub (*golang.org/x/tools/go/analysis/passes/ctrlflow.CFGs).FuncLit = c17FuncLit
//verif:stub (*go/types.Package).Path = c17PkgPath

var ndHarnesses = map[string]func(){"Harness_C17_Templ": Harness_C17_Templ}

var c17LitCFG *cfg.CFG
var c17Paths map[*types.Package]string

func c17FuncLit(c *ctrlflow.CFGs, lit *ast.FuncLit) *cfg.CFG { return c17LitCFG }
func c17PkgPath(p *types.Package) string                     { return c17Paths[p] }

func Harness_C17_Templ() {
	c17Paths = map[*types.Package]string{}
	templPkg, rtPkg := new(types.Package), new(types.Package)
	usePrefix := ndChoice("stubs_prefix", 2) == 1
	c17Paths[templPkg], c17Paths[rtPkg] = _templPkgPath, _templRuntimePkgPath
	if usePrefix {
		c17Paths[templPkg], c17Paths[rtPkg] = "stubs/"+_templPkgPath, "stubs/"+_templRuntimePkgPath
	}
	pos := 0
	id := func(name string) *ast.Ident { pos++; return &ast.Ident{Name: name, NamePos: token.Pos(pos)} }

	// type information: `templ.Component` is a named type of package templ; GeneratedTemplate a func of templruntime
	compObj := types.NewTypeName(token.NoPos, templPkg, "Component", nil)
	compType := types.NewNamed(compObj, types.NewStruct(nil, nil), nil)
	genObj := types.NewFunc(token.NoPos, rtPkg, "GeneratedTemplate", nil)
	resultTypeExpr := &ast.SelectorExpr{X: id("templ"), Sel: id("Component")}
	genSel := id("GeneratedTemplate")
	info := &types.Info{
		Types: map[ast.Expr]types.TypeAndValue{resultTypeExpr: {Type: compType}},
		Defs:  map[*ast.Ident]types.Object{},
		Uses:  map[*ast.Ident]types.Object{genSel: genObj},
	}

	// the literal and its (driver-shared) CFG
	innerRet := func() *ast.ReturnStmt { return &ast.ReturnStmt{Results: []ast.Expr{id("nil")}} }
	lit := &ast.FuncLit{Type: &ast.FuncType{}, Body: &ast.BlockStmt{}}
	nb := 1 + ndChoice("lit_blocks", 3)
	c17LitCFG = &cfg.CFG{}
	for b := 0; b < nb; b++ {
		blk := &cfg.Block{Index: int32(b), Live: ndChoice("live", 2) == 1}
		blk.Nodes = append(blk.Nodes, &ast.ExprStmt{X: id("work")})
		for r := ndChoice("returns", 3); r > 0; r-- {
			blk.Nodes = append(blk.Nodes, innerRet())
		}
		c17LitCFG.Blocks = append(c17LitCFG.Blocks, blk)
	}
	for b := 0; b+1 < nb; b++ {
		c17LitCFG.Blocks[b].Succs = []*cfg.Block{c17LitCFG.Blocks[b+1]}
	}
	outerRet := &ast.ReturnStmt{Results: []ast.Expr{&ast.CallExpr{Fun: &ast.SelectorExpr{X: id("templruntime"), Sel: genSel}, Args: []ast.Expr{lit}}}}
	decl := &ast.FuncDecl{Name: id("C"),
		Type: &ast.FuncType{Results: &ast.FieldList{List: []*ast.Field{{Type: resultTypeExpr}}}},
		Body: &ast.BlockStmt{List: []ast.Stmt{outerRet}}}
	outer := &cfg.CFG{Blocks: []*cfg.Block{{Index: 0, Live: true, Nodes: []ast.Node{outerRet}}}}

	ctrlflow.Analyzer = &analysis.Analyzer{Name: "ctrlflow"}
	pass := analysishelper.NewEnhancedPass(&analysis.Pass{TypesInfo: info,
		ResultOf: map[*analysis.Analyzer]interface{}{ctrlflow.Analyzer: &ctrlflow.CFGs{}}})

	beforeLit := ndSnapshot(c17LitCFG)
	beforeOuter := ndSnapshot(outer, decl)
	got := New(pass).CFG(outer, decl)
	// the inlining must have happened (otherwise the check would be vacuous)
	ndAssert("C17.templ.literal_cfg_was_inlined", len(got.Blocks) == nb)
	ndAssert("C17.templ.shared_literal_cfg_unchanged", ndSnapshot(c17LitCFG) == beforeLit)
	ndAssert("C17.templ.function_cfg_and_ast_unchanged", ndSnapshot(outer, decl) == beforeOuter)
	// and the inner returns are replaced in the RESULT
	for _, b := range got.Blocks {
		if !b.Live {
			continue
		}
		for _, n := range b.Nodes {
			if r, ok := n.(*ast.ReturnStmt); ok {
				ndAssert("C17.templ.result_uses_the_outer_return", r == outerRet)
			}
		}
	}
}
