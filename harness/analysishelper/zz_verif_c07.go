package analysishelper

// C07 (containment clause only): a panic or error inside a sub-analyzer never escapes WrapRun; it
// becomes Result.Err carrying config.InternalPanicPrefix, the analyzer's name and the panic value.
// Kernel (real code): WrapRun[T] (instantiated for an int result and a slice result) including
// its deferred recover. The analyzer name and the panic / error text are symbolic strings.

import (
	"errors"
	"strings"

	"go.uber.org/nilaway/config"
	"golang.org/x/tools/go/analysis"
)

var ndHarnesses = map[string]func(){"Harness_C07_WrapRun": Harness_C07_WrapRun}

type c07Err struct{ msg string }

func (e *c07Err) Error() string { return e.msg }

func Harness_C07_WrapRun() {
	name := ndStr("analyzer_name", 5)
	msg := ndStr("message", 5)
	behaviour := ndChoice("behaviour", 7)
	inner := &c07Err{msg: msg}
	f := func(p *analysis.Pass) ([]int, error) {
		switch behaviour {
		case 0:
			return []int{1, 2}, nil
		case 1:
			return nil, inner
		case 2:
			panic(msg)
		case 3:
			panic(inner)
		case 4:
			var m map[string]int
			m["x"] = 1 // run-time panic: assignment to entry in nil map
		case 5:
			var x interface{} = 1
			_ = x.(string) // run-time panic: failed type assertion
		case 6:
			var q *analysis.Pass
			_ = q.Analyzer // run-time panic: nil dereference
		}
		return nil, nil
	}
	var pass *analysis.Pass
	switch ndChoice("pass", 3) {
	case 0:
		pass = nil
	case 1:
		pass = &analysis.Pass{}
	case 2:
		pass = &analysis.Pass{Analyzer: &analysis.Analyzer{Name: name}}
	}
	named := pass != nil && pass.Analyzer != nil
	escaped := true
	var res interface{}
	var err error
	func() {
		defer func() {
			if recover() == nil {
				escaped = false
			}
		}()
		res, err = WrapRun(f)(pass)
		escaped = false
	}()
	ndAssert("C07.no_panic_escapes_the_wrapper", !escaped)
	if escaped {
		return
	}
	ndAssert("C07.wrapper_itself_returns_no_error", err == nil)
	r, ok := res.(*Result[[]int])
	ndAssert("C07.result_has_the_declared_type", ok && r != nil)
	if !ok || r == nil {
		return
	}
	ndObserveBool("has_err", r.Err != nil)
	switch behaviour {
	case 0:
		ndAssert("C07.normal_result_is_passed_through", r.Err == nil && len(r.Res) == 2)
	case 1:
		ndAssert("C07.returned_error_is_kept", r.Err != nil)
		if r.Err != nil {
			ndAssert("C07.returned_error_is_wrapped_not_lost", errors.Is(r.Err, inner))
			if named {
				ndAssert("C07.returned_error_names_the_analyzer", strings.HasPrefix(r.Err.Error(), name+": "))
			}
			ndAssert("C07.returned_error_is_not_reported_as_a_panic", ndNot(strings.HasPrefix(r.Err.Error(), config.InternalPanicPrefix)))
		}
	default:
		ndAssert("C07.panic_becomes_an_error", r.Err != nil)
		if r.Err != nil {
			text := r.Err.Error()
			ndAssert("C07.panic_error_carries_the_internal_panic_prefix", strings.HasPrefix(text, config.InternalPanicPrefix))
			if behaviour == 2 || behaviour == 3 {
				ndAssert("C07.panic_error_carries_the_panic_value", strings.Contains(text, msg))
			}
		}
	}
}
