#!/usr/bin/env python3
"""Regenerates /verif/MANIFEST.json from lib/registry.py and lib/manifest_meta.py."""
import json, os, sys
sys.path.insert(0, os.path.dirname(os.path.abspath(__file__)))
from registry import PROPERTIES
from manifest_meta import CLAIMS, NOT_APPLICABLE, NOTES

checks = []
for pid in sorted(PROPERTIES):
    c = CLAIMS[pid]
    checks.append({
        "property_id": pid,
        "quick_cmd": f"./check {pid} --tier quick",
        "thorough_cmd": f"./check {pid} --tier thorough",
        "evidence_file": f"/verif/evidence/{pid}.json",
        "replay_cmd_template": f"./check {pid} --replay {{path}}",
        "engine": "symx",
        "level_claimed": {"category": "model_checking", "text": c["text"], "design_ref": c.get("design_ref", "DESIGN.md section 4, " + pid)},
        "level_note": c["note"],
        "technique": c.get("technique", "bounded symbolic execution of the repo's go/ssa (symx) with z3 deciding every branch and assertion"),
    })
m = {
    "version": 1,
    "setup_cmd": "cd /verif/symx && GOFLAGS=-mod=mod GOPROXY=off go build -o /verif/bin/symx . && cd /repo && GOFLAGS=-mod=mod GOPROXY=off go build ./... ",
    "hooks": {
        "guard": "none (harnesses are injected with go/packages overlays and go test -overlay; /repo carries no hook code)",
        "enable": "symx -harness <file> injects /verif/harness/<pkg>/zz_verif_*.go into the package via packages.Config.Overlay; native replay uses go test -overlay",
        "baseline_off_cmd": "cd /repo && GOFLAGS=-mod=mod GOPROXY=off go test -vet=off -count=1 -timeout 25m ./...",
        "source_commits": [],
        "add_only": True,
    },
    "engines": [{
        "name": "symx", "path": "/verif/symx",
        "serves_properties": sorted(PROPERTIES),
        "kind_free_text": "symbolic executor for Go SSA (go/ssa v0.45.0, derived from x/tools go/ssa/interp): symbolic bool/bit-vector/string scalars, forking by decision replay, every map iteration order as a choice, z3 4.8.12 sessions (push/pop), native replay of solver models via go test -overlay",
    }],
    "checks": checks,
    "notes": NOTES,
    "not_applicable": [{"property_id": k, "reason": v} for k, v in sorted(NOT_APPLICABLE.items()) if k not in PROPERTIES],
}
json.dump(m, open(os.path.join(os.path.dirname(os.path.abspath(__file__)), "..", "MANIFEST.json"), "w"), indent=1)
print("MANIFEST.json:", len(checks), "checks,", len(m["not_applicable"]), "not applicable")
