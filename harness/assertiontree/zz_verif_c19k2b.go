package assertiontree

// C19-K2b: however a comparison is SPELLED, the same facts are attributed to the same run-time
// outcome. For a base comparison `X op Y` the harness also builds its converse spelling
// `Y conv(op) X` and its inverse spelling `X inv(op) Y` (whose branches are exchanged) and requires
// AddNilCheck to produce the same non-nil facts on corresponding branches. Operands range over
// nil, a pointer, len(a), len(a)-c, integer constants (symbolic value) and NON-constant integers
// (typed through the real go/types universe), all six operators.

//verif:use zz_verif_c02.go
//verif:init go/types

import (
	"go/ast"
	"go/constant"
	"go/token"
	"go/types"
)

func k2bConverse(op token.Token) token.Token {
	switch op {
	case token.LSS:
		return token.GTR
	case token.GTR:
		return token.LSS
	case token.LEQ:
		return token.GEQ
	case token.GEQ:
		return token.LEQ
	}
	return op
}

func k2bInverse(op token.Token) token.Token {
	switch op {
	case token.EQL:
		return token.NEQ
	case token.NEQ:
		return token.EQL
	case token.LSS:
		return token.GEQ
	case token.GEQ:
		return token.LSS
	case token.GTR:
		return token.LEQ
	}
	return token.GTR // LEQ
}

func Harness_C19_K2b() {
	pass := c02Pass()
	a := &ast.Ident{Name: "a", NamePos: 1}
	x := &ast.Ident{Name: "x", NamePos: 2}
	intT := types.Typ[types.Int]
	typed := func(e ast.Expr) ast.Expr {
		pass.TypesInfo.Types[e] = types.TypeAndValue{Type: intT}
		return e
	}
	lenA := func() ast.Expr { return typed(&ast.CallExpr{Fun: &ast.Ident{Name: "len"}, Args: []ast.Expr{a}}) }
	konst := func(tag string) ast.Expr {
		lit := &ast.BasicLit{Kind: token.INT, Value: "k"}
		pass.TypesInfo.Types[lit] = types.TypeAndValue{Type: intT, Value: constant.MakeInt64(int64(ndInt(tag, -3, 3)))}
		return lit
	}
	// only type-correct comparisons: pointer against nil with == / !=, or int against int with any operator
	var X, Y ast.Expr
	var op token.Token
	if ndChoice("operands", 2) == 0 {
		ptr := func(tag string) ast.Expr {
			if ndChoice(tag, 2) == 0 {
				return &ast.Ident{Name: "nil"}
			}
			return x
		}
		X, Y = ptr("left"), ptr("right")
		op = []token.Token{token.EQL, token.NEQ}[ndChoice("eqop", 2)]
	} else {
		intOperand := func(tag string) ast.Expr {
			switch ndChoice(tag, 4) {
			case 0:
				return lenA()
			case 1:
				return typed(&ast.BinaryExpr{X: lenA(), Op: []token.Token{token.SUB, token.ADD}[ndChoice(tag+"_arith", 2)], Y: konst(tag + "_c")})
			case 2:
				return konst(tag + "_k")
			}
			return typed(&ast.Ident{Name: "n", NamePos: 9}) // a non-constant int
		}
		X, Y = intOperand("left"), intOperand("right")
		op = k2Ops()[ndChoice("op", 6)]
	}
	prods := func(e ast.Expr) (t, f []ast.Expr) {
		tc, fc, _ := AddNilCheck(pass, e)
		root := &RootAssertionNode{}
		c02Prods = nil
		tc(root)
		for _, p := range c02Prods {
			t = append(t, p.expr)
		}
		c02Prods = nil
		fc(root)
		for _, p := range c02Prods {
			f = append(f, p.expr)
		}
		return
	}
	same := func(p, q []ast.Expr) bool {
		if len(p) != len(q) {
			return false
		}
		for i := range p {
			if p[i] != q[i] {
				return false
			}
		}
		return true
	}
	bt, bf := prods(&ast.BinaryExpr{X: X, Op: op, Y: Y})
	ct, cf := prods(&ast.BinaryExpr{X: Y, Op: k2bConverse(op), Y: X})
	it, iff := prods(&ast.BinaryExpr{X: X, Op: k2bInverse(op), Y: Y})
	ndObserveInt("facts_on_true_branch", len(bt))
	ndObserveInt("facts_on_false_branch", len(bf))
	ndAssert("C19.K2b.converse_spelling_attributes_the_same_facts", same(bt, ct) && same(bf, cf))
	ndAssert("C19.K2b.inverse_spelling_attributes_the_same_facts_to_the_opposite_branch", same(bt, iff) && same(bf, it))
}
