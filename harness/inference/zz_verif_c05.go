package inference

// C05 (layer 1, site level): a conflict is reported iff a nil source reaches a non-nil sink, in
// any order; explanations are real paths; final verdicts match reachability (DESIGN.md section 4).
//
// Kernel (real code): Engine.observeSiteExplanation, observeImplication,
// storeDeterminedAndActivateControlledTriggers, activateControlledTriggers, InferredMap.Load /
// StoreDetermined / StoreImplication, orderedmap.OrderedMap.
//
// Inputs: a sequence of <= N constraints; each constraint's KIND is a concrete choice (it steers
// control flow), its SITES are symbolic integers in [0,S): every key comparison inside the engine's
// maps is decided by the solver, so one path stands for every site assignment with the same
// equality pattern. The reference (boolean reachability closure over S sites) is one SMT term.

import (
	"go/token"

	"go.uber.org/nilaway/annotation"
)

const (
	c05Source    = iota // definite nil source at site a
	c05Sink             // definite non-nil requirement at site a
	c05Edge             // flow a -> b
	c05AnnNil           // explicit nilable annotation on a
	c05AnnNonnil        // explicit nonnil annotation on a
	c05Kinds
)

type c05Op struct {
	kind int
	a, b int
}

type c05Conflict struct{ nilExp, nonnilExp ExplainedBool }

type c05Rec struct {
	over   []c05Conflict
	single int
}

func (r *c05Rec) AddSingleAssertionConflict(annotation.FullTrigger) { r.single++ }
func (r *c05Rec) AddOverconstraintConflict(n, nn ExplainedBool) {
	r.over = append(r.over, c05Conflict{n, nn})
}

func c05Site(i int) primitiveSite {
	return primitiveSite{Position: token.Position{Filename: "f.go", Offset: i, Line: 1, Column: 1}, PkgPath: "p", Repr: "site"}
}

func c05Tag(k int) primitiveFullTrigger {
	return primitiveFullTrigger{Position: token.Position{Filename: "f.go", Offset: 1000 + k, Line: 1, Column: 1}}
}

func c05Apply(e *Engine, k int, op c05Op) {
	switch op.kind {
	case c05Source:
		e.observeSiteExplanation(c05Site(op.a), TrueBecauseShallowConstraint{ExternalAssertion: c05Tag(k)})
	case c05Sink:
		e.observeSiteExplanation(c05Site(op.a), FalseBecauseShallowConstraint{ExternalAssertion: c05Tag(k)})
	case c05Edge:
		e.observeImplication(c05Site(op.a), c05Site(op.b), c05Tag(k))
	case c05AnnNil:
		e.observeSiteExplanation(c05Site(op.a), TrueBecauseAnnotation{AnnotationPos: c05Site(op.a).Position})
	case c05AnnNonnil:
		e.observeSiteExplanation(c05Site(op.a), FalseBecauseAnnotation{AnnotationPos: c05Site(op.a).Position})
	}
}

// c05Ref is the order-free reference: reachability closure and source/sink sets over S sites.
type c05Ref struct {
	S         int
	reach     [][]bool // reach[i][j]: i ~> j (reflexive, transitive)
	src, sink []bool
	fromSrc   []bool // some source reaches i
	toSink    []bool // i reaches some sink
	conflict  bool
}

func c05Reference(S int, ops []c05Op) *c05Ref {
	r := &c05Ref{S: S}
	r.reach = make([][]bool, S)
	r.src = make([]bool, S)
	r.sink = make([]bool, S)
	for i := 0; i < S; i++ {
		r.reach[i] = make([]bool, S)
		r.reach[i][i] = true
		for _, op := range ops {
			switch op.kind {
			case c05Source, c05AnnNil:
				r.src[i] = ndOr(r.src[i], op.a == i)
			case c05Sink, c05AnnNonnil:
				r.sink[i] = ndOr(r.sink[i], op.a == i)
			}
		}
		for j := 0; j < S; j++ {
			for _, op := range ops {
				if op.kind == c05Edge {
					r.reach[i][j] = ndOr(r.reach[i][j], ndAnd(op.a == i, op.b == j))
				}
			}
		}
	}
	for k := 0; k < S; k++ {
		for i := 0; i < S; i++ {
			for j := 0; j < S; j++ {
				r.reach[i][j] = ndOr(r.reach[i][j], ndAnd(r.reach[i][k], r.reach[k][j]))
			}
		}
	}
	r.fromSrc = make([]bool, S)
	r.toSink = make([]bool, S)
	for i := 0; i < S; i++ {
		for j := 0; j < S; j++ {
			r.fromSrc[i] = ndOr(r.fromSrc[i], ndAnd(r.src[j], r.reach[j][i]))
			r.toSink[i] = ndOr(r.toSink[i], ndAnd(r.reach[i][j], r.sink[j]))
		}
		r.conflict = ndOr(r.conflict, ndAnd(r.fromSrc[i], r.toSink[i]))
	}
	return r
}

// sel returns vec[o] for a symbolic index o as one term.
func c05Sel(o int, vec []bool) bool {
	out := false
	for i := range vec {
		out = ndOr(out, ndAnd(o == i, vec[i]))
	}
	return out
}

// c05TagIndex maps an assertion tag back to the index of the constraint that carried it.
func c05TagIndex(t primitiveFullTrigger) int { return t.Position.Offset - 1000 }

// c05NilChain checks that a nilable explanation is a real path source ~> site and returns
// (valid, site) as terms.
func c05NilChain(e ExplainedBool, ops []c05Op) (bool, int) {
	switch x := e.(type) {
	case TrueBecauseShallowConstraint:
		k := c05TagIndex(x.ExternalAssertion)
		if k < 0 || k >= len(ops) || ops[k].kind != c05Source {
			return false, 0
		}
		return true, ops[k].a
	case TrueBecauseAnnotation:
		ok := false
		for _, op := range ops {
			if op.kind == c05AnnNil {
				ok = ndOr(ok, op.a == x.AnnotationPos.Offset)
			}
		}
		return ok, x.AnnotationPos.Offset
	case TrueBecauseDeepConstraint:
		k := c05TagIndex(x.InternalAssertion)
		if k < 0 || k >= len(ops) || ops[k].kind != c05Edge {
			return false, 0
		}
		ok, at := c05NilChain(x.DeeperExplanation, ops)
		return ndAnd(ok, at == ops[k].a), ops[k].b
	}
	return false, 0
}

// c05NonnilChain checks that a non-nil explanation is a real path site ~> sink.
func c05NonnilChain(e ExplainedBool, ops []c05Op) (bool, int) {
	switch x := e.(type) {
	case FalseBecauseShallowConstraint:
		k := c05TagIndex(x.ExternalAssertion)
		if k < 0 || k >= len(ops) || ops[k].kind != c05Sink {
			return false, 0
		}
		return true, ops[k].a
	case FalseBecauseAnnotation:
		ok := false
		for _, op := range ops {
			if op.kind == c05AnnNonnil {
				ok = ndOr(ok, op.a == x.AnnotationPos.Offset)
			}
		}
		return ok, x.AnnotationPos.Offset
	case FalseBecauseDeepConstraint:
		k := c05TagIndex(x.InternalAssertion)
		if k < 0 || k >= len(ops) || ops[k].kind != c05Edge {
			return false, 0
		}
		ok, at := c05NonnilChain(x.DeeperExplanation, ops)
		return ndAnd(ok, at == ops[k].b), ops[k].a
	}
	return false, 0
}

func c05ReadOps(S, n int) []c05Op {
	ops := make([]c05Op, n)
	for k := 0; k < n; k++ {
		ops[k].kind = ndChoice("kind", c05Kinds)
		ops[k].a = ndInt("a", 0, S-1)
		if ops[k].kind == c05Edge {
			ops[k].b = ndInt("b", 0, S-1)
		}
	}
	return ops
}

// c05CheckFinal asserts A1 (conflict iff), A2 (explanations are paths) and A3 (verdicts).
func c05CheckFinal(tag string, e *Engine, rec *c05Rec, ref *c05Ref, ops []c05Op) {
	got := len(rec.over)+rec.single > 0
	ndObserveBool("conflict", got)
	ndObserveInt("n_conflicts", len(rec.over))
	ndAssert(tag+".A1.conflict_iff_source_reaches_sink", ndIff(got, ref.conflict))
	for _, c := range rec.over {
		okN, atN := c05NilChain(c.nilExp, ops)
		okF, atF := c05NonnilChain(c.nonnilExp, ops)
		ndAssert(tag+".A2.nil_explanation_is_observed_path", okN)
		ndAssert(tag+".A2.nonnil_explanation_is_observed_path", okF)
		ndAssert(tag+".A2.explanations_meet_at_one_site", atN == atF)
	}
	if got {
		return
	}
	// A3: no conflict => verdict of every site equals reachability
	present := make([]bool, ref.S)
	e.inferredMap.OrderedRange(func(site primitiveSite, val InferredVal) bool {
		o := site.Position.Offset
		for i := 0; i < ref.S; i++ {
			present[i] = ndOr(present[i], o == i)
		}
		switch v := val.(type) {
		case *DeterminedVal:
			if v.Bool.Val() {
				ndAssert(tag+".A3.nilable_iff_reached_from_source", ndAnd(c05Sel(o, ref.fromSrc), ndNot(c05Sel(o, ref.toSink))))
				ok, at := c05NilChain(v.Bool, ops)
				ndAssert(tag+".A3.nilable_explanation_is_path_to_site", ndAnd(ok, at == o))
			} else {
				ndAssert(tag+".A3.nonnil_iff_reaches_sink", ndAnd(c05Sel(o, ref.toSink), ndNot(c05Sel(o, ref.fromSrc))))
				ok, at := c05NonnilChain(v.Bool, ops)
				ndAssert(tag+".A3.nonnil_explanation_is_path_from_site", ndAnd(ok, at == o))
			}
		case *UndeterminedVal:
			ndAssert(tag+".A3.undetermined_iff_unconstrained", ndAnd(ndNot(c05Sel(o, ref.fromSrc)), ndNot(c05Sel(o, ref.toSink))))
		}
		return true
	})
	for i := 0; i < ref.S; i++ {
		ndAssert(tag+".A3.absent_site_is_unconstrained", ndImplies(ndNot(present[i]), ndAnd(ndNot(ref.fromSrc[i]), ndNot(ref.toSink[i]))))
	}
}

func Harness_C05_L1() {
	S := ndParam("S", 3)
	N := ndParam("N", 3)
	n := 1 + ndChoice("n", N)
	ops := c05ReadOps(S, n)
	rec := &c05Rec{}
	e := &Engine{inferredMap: newInferredMap(nil), diagnosticEngine: rec}
	for k, op := range ops {
		c05Apply(e, k, op)
	}
	c05CheckFinal("C05.L1", e, rec, c05Reference(S, ops), ops)
}

// Harness_C10_Binding (C10-K2): an explicit annotation observed first (as accumulation.run does)
// fixes its site: whatever constraints follow, in any order, the site keeps exactly the annotated
// value with the annotation as its explanation; contradicting flows become conflicts (A1/A2 of
// C05) and never override it.
func Harness_C10_Binding() {
	S := ndParam("S", 3)
	N := ndParam("N", 3)
	n := 1 + ndChoice("n", N)
	annNil := ndChoice("annotated_nilable", 2) == 1
	x := ndInt("x", 0, S-1)
	ops := make([]c05Op, 0, n+1)
	if annNil {
		ops = append(ops, c05Op{kind: c05AnnNil, a: x})
	} else {
		ops = append(ops, c05Op{kind: c05AnnNonnil, a: x})
	}
	ops = append(ops, c05ReadOps(S, n)...)
	rec := &c05Rec{}
	e := &Engine{inferredMap: newInferredMap(nil), diagnosticEngine: rec}
	for k, op := range ops {
		c05Apply(e, k, op)
	}
	v, ok := e.inferredMap.Load(c05Site(x))
	ndAssert("C10.K2.annotated_site_is_determined", ok)
	dv, isDet := v.(*DeterminedVal)
	ndAssert("C10.K2.annotated_site_is_determined", isDet)
	if isDet {
		ndObserveBool("final_nilable", dv.Bool.Val())
		ndAssert("C10.K2.inference_never_overrides_an_annotation", dv.Bool.Val() == annNil)
		_, t := dv.Bool.(TrueBecauseAnnotation)
		_, f := dv.Bool.(FalseBecauseAnnotation)
		ndAssert("C10.K2.annotation_stays_the_explanation", t || f)
	}
	c05CheckFinal("C10.K2", e, rec, c05Reference(S, ops), ops)
}
