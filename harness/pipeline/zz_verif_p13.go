package accumulation

// Presentation at source level (C13 grouping, C11 nolint): every program of the C01 grammar is analysed by the
// real pipeline four times - grouping off / on, without and with a `//nolint:nilaway` comment on one chosen
// line - and the reports are compared:
//   C13.X  with grouping on, every location reported with grouping off appears exactly once, as a diagnostic
//          position or in one "other place(s)" list; the stated count equals the list length; nothing new appears
//   C11.X  the nolint comment removes exactly the reports located on its line, under both grouping values
// The comparison is about NilAway's own output (real messages, real comment map), so no run-time oracle is
// needed; programs are enumerated, no symbolic scalars.

//verif:use zz_verif_pipe.go

import (
	"sort"
	"strconv"
	"strings"
)

// p13Places returns the sorted list of every reported location ("file:line:col"), leaders and listed ones, and
// whether every "N other place(s)" count matched its list.
func p13Places(r pipeResult) (places []string, countsOK bool) {
	countsOK = true
	for _, d := range r.diags {
		pos := r.fset.Position(d.Pos)
		places = append(places, pos.Filename+":"+strconv.Itoa(pos.Line)+":"+strconv.Itoa(pos.Column))
		const marker = "potential nil panic(s) at "
		i := strings.Index(d.Message, marker)
		if i < 0 {
			continue
		}
		rest := d.Message[i+len(marker):]
		j := strings.Index(rest, " other place(s): ")
		if j < 0 {
			countsOK = false
			continue
		}
		n, err := strconv.Atoi(rest[:j])
		if err != nil {
			countsOK = false
			continue
		}
		list := rest[j+len(" other place(s): "):]
		got := 0
		for {
			a := strings.Index(list, "\"")
			if a < 0 {
				break
			}
			b := strings.Index(list[a+1:], "\"")
			if b < 0 {
				countsOK = false
				break
			}
			places = append(places, list[a+1:a+1+b])
			got++
			list = list[a+1+b+1:]
		}
		if got != n {
			countsOK = false
		}
	}
	sort.Strings(places)
	return places, countsOK
}

func p13Without(places []string, line int) []string {
	var out []string
	for _, p := range places {
		parts := strings.Split(p, ":")
		if len(parts) >= 3 && parts[len(parts)-2] == strconv.Itoa(line) {
			continue
		}
		out = append(out, p)
	}
	return out
}

func p13Same(a, b []string) bool {
	if len(a) != len(b) {
		return false
	}
	for k := range a {
		if a[k] != b[k] {
			return false
		}
	}
	return true
}

func Harness_P13() {
	n := ndParam("STMTS", 2)
	compound := ndParam("COMPOUND", 5)
	g := &p01Gen{x: true, y: true, g: true, live: true, calleeKind: -1, simple: ndParam("SIMPLE", 9)}
	g.emit("package p")
	g.emit("")
	g.emit("var flag0, flag1, flag2, flag3, calleeflag bool")
	g.emit("var g *int")
	g.emit("")
	g.emit("func Entry() {")
	g.emit("\tvar x, y *int")
	for k := 0; k < n; k++ {
		g.stmt(compound)
	}
	g.emit("\t_, _ = x, y")
	g.emit("}")
	calleeDeref := 0
	if g.calleeKind >= 0 {
		calleeDeref = g.emitCallee()
	}
	src := g.b.String()
	ndObserveStr("source", src)

	pipeGroupMessages = false
	plain := pipeAnalyse(src)
	pipeGroupMessages = true
	grouped := pipeAnalyse(src)
	plainPlaces, _ := p13Places(plain)
	groupedPlaces, countsOK := p13Places(grouped)
	ndObserveInt("diagnostics_plain", len(plain.diags))
	ndObserveInt("diagnostics_grouped", len(grouped.diags))
	ndAssert("C13.X.other_places_count_equals_list_length", countsOK)
	ndAssert("C13.X.grouped_report_covers_exactly_the_ungrouped_locations", p13Same(plainPlaces, groupedPlaces))

	// a nolint comment on one of the lines that hold an unchecked dereference (or on the line before the first one)
	var candidates []int
	for _, l := range g.unchecked {
		candidates = append(candidates, l)
	}
	if calleeDeref > 0 {
		candidates = append(candidates, calleeDeref)
	}
	if len(candidates) == 0 {
		return
	}
	line := candidates[ndChoice("nolint_line", len(candidates))]
	lines := strings.Split(src, "\n")
	lines[line-1] += " //nolint:nilaway"
	suppressed := strings.Join(lines, "\n")
	ndObserveStr("source_nolint", suppressed)
	pipeGroupMessages = false
	plainS := pipeAnalyse(suppressed)
	pipeGroupMessages = true
	groupedS := pipeAnalyse(suppressed)
	plainSPlaces, _ := p13Places(plainS)
	groupedSPlaces, countsOK2 := p13Places(groupedS)
	ndAssert("C13.X.other_places_count_equals_list_length", countsOK2)
	ndAssert("C11.X.nolint_removes_exactly_the_reports_on_its_line,grouping=off", p13Same(p13Without(plainPlaces, line), plainSPlaces))
	ndAssert("C11.X.nolint_removes_exactly_the_reports_on_its_line,grouping=on", p13Same(p13Without(groupedPlaces, line), groupedSPlaces))
}
