package accumulation

// P10R: result annotations on methods, with the receiver spelled three ways (anonymous, blank, named). The
// annotation names `result 0` only; the receiver carries none, so a call on a nil receiver of a method that never
// uses its receiver is harmless.
//
//	type T int
//	// [nonnil(result 0) | nilable(result 0)]
//	func ([t|_] *T) make() *int { return new(int) | return nil }
//	func Entry() { var t *T; x := t.make(); _ = *x  |  if x != nil { _ = *x } }
//
// Expected report: iff the result may be nil (body returns nil, or annotated nilable) and is dereferenced
// unchecked, or the body returns nil into a nonnil-annotated result. Both directions are asserted.

//verif:use zz_verif_pipe.go

import "strings"

func Harness_P10R() {
	var b strings.Builder
	b.WriteString("package p\n\ntype T int\n\n")
	ann := ndChoice("annotation", 3) // 0 none, 1 nonnil(result 0), 2 nilable(result 0)
	switch ann {
	case 1:
		b.WriteString("// nonnil(result 0)\n")
	case 2:
		b.WriteString("// nilable(result 0)\n")
	}
	recv := []string{"(*T)", "(_ *T)", "(t *T)"}[ndChoice("receiver", 3)]
	returnsNil := ndChoice("body", 2) == 1
	if returnsNil {
		b.WriteString("func " + recv + " make() *int { return nil }\n\n")
	} else {
		b.WriteString("func " + recv + " make() *int { return new(int) }\n\n")
	}
	unchecked := ndChoice("use", 2) == 0
	b.WriteString("func Entry() {\n\tvar t *T\n\tx := t.make()\n")
	if unchecked {
		b.WriteString("\t_ = *x\n")
	} else {
		b.WriteString("\tif x != nil {\n\t\t_ = *x\n\t}\n")
	}
	b.WriteString("}\n")
	src := b.String()
	ndObserveStr("source", src)
	r := pipeAnalyse(src)
	ndObserveInt("diagnostics", len(r.diags))
	for _, d := range r.diags {
		ndObserveStr("diag", d.Message)
	}
	ndAssert("P10R.no_internal_failure", r.panicked == "" && len(r.funcErrs) == 0)
	resultMayBeNil := (returnsNil && ann != 1) || ann == 2
	expected := (resultMayBeNil && unchecked) || (returnsNil && ann == 1)
	ndAssert("P10R.reported_iff_the_annotated_result_site_demands_it", (len(r.diags) > 0) == expected)
}
