package tokenhelper

// VerifSetCwd lets a harness of another package choose the working directory the process "was started in"
// (captured once by this package's initialiser).
func VerifSetCwd(dir string) { _cwd, _cwdErr = dir, nil }
