package annotation

var ndHarnesses = map[string]func(){"Harness_C12_K3": Harness_C12_K3}
