package inference

// C15-A2 without stubs: the importer re-keys a dependency's METHOD on an unexported type (reachable
// through an exported constructor) to the identity the dependency recorded. Everything is real:
// go/types objects and scopes (the go/types initialiser is executed), objectpath.Encoder.For,
// the primitivizer's objectPath / toPosition / site, the token.FileSet.

//verif:init go/types
//verif:init go/token
//verif:init go.uber.org/nilaway/util/tokenhelper

import (
	"go/token"
	"go/types"

	"go.uber.org/nilaway/annotation"
	"go.uber.org/nilaway/util/analysishelper"
	"golang.org/x/tools/go/analysis"
	"golang.org/x/tools/go/types/objectpath"
)

func Harness_C15_StableMethod() {
	dep := types.NewPackage("m/dep", "dep")
	// type store struct{} ; func (*store) Get() *int   -- `store` may or may not be exported
	typeExported := ndChoice("receiver_type_is_exported", 2) == 1
	tname := "store"
	if typeExported {
		tname = "Store"
	}
	tn := types.NewTypeName(token.Pos(5), dep, tname, nil)
	named := types.NewNamed(tn, types.NewStruct(nil, nil), nil)
	dep.Scope().Insert(tn)
	recv := types.NewVar(token.Pos(6), dep, "s", types.NewPointer(named))
	res := types.NewVar(token.NoPos, dep, "", types.NewPointer(types.Typ[types.Int]))
	get := types.NewFunc(token.Pos(1+ndInt("local_pos", 10, 5000)), dep, "Get", types.NewSignatureType(recv, nil, nil, nil, types.NewTuple(res), false))
	named.AddMethod(get)
	path, err := (&objectpath.Encoder{}).For(get)
	if err != nil {
		panic("objectpath: " + err.Error())
	}
	ndObserveStr("object_path", string(path))

	// what the dependency recorded when it analysed itself (true position)
	recorded := token.Position{Filename: "dep/store.go", Offset: ndInt("rec_offset", 0, 9999), Line: ndInt("rec_line", 1, 999), Column: ndInt("rec_col", 1, 99)}
	depSite := primitiveSite{Position: recorded, PkgPath: "m/dep", Repr: "Result 0 of Function Get", Exported: true, ObjectPath: path}
	fact := newInferredMap(nil)
	fact.StoreDetermined(depSite, TrueBecauseAnnotation{AnnotationPos: recorded})

	fset := token.NewFileSet()
	fset.AddFile("dep/store.go", 1, 1<<20) // export data: one fake line table, imprecise positions
	local := types.NewPackage("m/app", "app")
	pass := analysishelper.NewEnhancedPass(&analysis.Pass{Pkg: local, Fset: fset,
		AllPackageFacts: func() []analysis.PackageFact { return []analysis.PackageFact{{Package: dep, Fact: fact}} }})
	p := newPrimitivizer(pass)
	got := p.site(&annotation.RetAnnotationKey{FuncDecl: get, RetNum: 0}, false)
	ndObserveInt("line", got.Position.Line)
	ndAssert("C15.A2.importer_recovers_the_recorded_identity_of_a_method_on_any_receiver_type", got == depSite)
}
