package functioncontracts

// C20-K1: an inferred nonnil->nonnil contract is TRUE of the function.
//
// Nothing is stubbed: the harness prints a one-parameter one-result pointer function from a small
// grammar, and the REAL go/parser, go/types checker and go/ssa builder (all executed from SSA by
// symx, after running their package initialisers) produce the *ssa.Function that the REAL
// inferContracts analyses. The oracle is the function's own semantics, computed alongside the
// source text as one SMT term over "x is nil" and the values of the opaque conditions: if a
// contract is inferred, then for every valuation with x non-nil the returned value is non-nil.
//
// Grammar (depth-bounded):
//   S ::= return R | if C { S } else { S } | if C { S } ; S | if C { y = A } ; S | if C { y = A } else { y = A } ; S      A ::= nil | new(int) | x
//   C ::= x == nil | x != nil | nil == x | nil != x | y == nil | y != nil | flagK (opaque package-level bool)
//   R ::= nil | x | new(int) | y | z         with  y := x  and  var z *int  declared first

//verif:init go/types
//verif:init go/token
//verif:init go/ast
//verif:init go/scanner
//verif:init go/parser
//verif:init golang.org/x/tools/go/ssa

import (
	"go/ast"
	"go/parser"
	"go/token"
	"go/types"
	"strconv"
	"strings"

	"golang.org/x/tools/go/ssa"
	"golang.org/x/tools/go/ssa/ssautil"
)

var ndHarnesses = map[string]func(){"Harness_C20_K1": Harness_C20_K1}

type c20Gen struct {
	b                strings.Builder
	xnil             bool   // symbolic
	flags            []bool // symbolic values of the opaque conditions, in order of appearance
	nConds, nResults int    // sizes of the condition / result alphabets (prefixes of the lists below)
	nStmts           int    // how many statement forms are enabled (prefix of: return, if/else, if, conditional assignment, if/else assignment)
}

func (g *c20Gen) line(indent int, s string) {
	g.b.WriteString(strings.Repeat("\t", indent) + s + "\n")
}

// cond emits a condition and returns its source and its truth value (as a term).
func (g *c20Gen) cond(ynil bool) (string, bool) {
	switch ndChoice("cond", g.nConds) {
	case 0:
		return "x == nil", g.xnil
	case 1:
		return "nil != x", ndNot(g.xnil)
	case 2:
		k := len(g.flags)
		v := ndBool("flag")
		g.flags = append(g.flags, v)
		return "flag" + strconv.Itoa(k), v
	case 3:
		return "y == nil", ynil
	case 4:
		return "x != nil", ndNot(g.xnil)
	case 5:
		return "nil == x", g.xnil
	}
	return "y != nil", ndNot(ynil)
}

// stmt emits statements that end in a return on every path; it returns "the returned value is nil".
func (g *c20Gen) stmt(depth, indent int, ynil bool) bool {
	kind := 0
	if depth > 0 {
		kind = ndChoice("stmt", g.nStmts)
	}
	switch kind {
	case 0:
		switch ndChoice("result", g.nResults) {
		case 0:
			g.line(indent, "return nil")
			return true
		case 1:
			g.line(indent, "return x")
			return g.xnil
		case 2:
			g.line(indent, "return new(int)")
			return false
		case 3:
			g.line(indent, "return y")
			return ynil
		}
		g.line(indent, "return z")
		return true // z is declared `var z *int` and never assigned
	case 1:
		src, c := g.cond(ynil)
		g.line(indent, "if "+src+" {")
		r1 := g.stmt(depth-1, indent+1, ynil)
		g.line(indent, "} else {")
		r2 := g.stmt(depth-1, indent+1, ynil)
		g.line(indent, "}")
		return ndIteBool(c, r1, r2)
	case 2:
		src, c := g.cond(ynil)
		g.line(indent, "if "+src+" {")
		r1 := g.stmt(depth-1, indent+1, ynil)
		g.line(indent, "}")
		r2 := g.stmt(depth-1, indent, ynil)
		return ndIteBool(c, r1, r2)
	}
	// a conditional assignment to the local y (kind 3: if without else; kind 4: if/else, which
	// gives the CFG a merge point whose block number is not its breadth-first rank), then the rest
	assign := func(tag string) bool {
		switch ndChoice(tag, 3) {
		case 0:
			g.line(indent+1, "y = nil")
			return true
		case 1:
			g.line(indent+1, "y = new(int)")
			return false
		}
		g.line(indent+1, "y = x")
		return g.xnil
	}
	src, c := g.cond(ynil)
	g.line(indent, "if "+src+" {")
	assigned := assign("assign")
	otherwise := ynil
	if kind == 4 {
		g.line(indent, "} else {")
		otherwise = assign("assign_else")
	}
	g.line(indent, "}")
	return g.stmt(depth-1, indent, ndIteBool(c, assigned, otherwise))
}

func Harness_C20_K1() {
	g := &c20Gen{xnil: ndBool("x_is_nil"), nConds: ndParam("CONDS", 7), nResults: ndParam("RESULTS", 5), nStmts: ndParam("STMTKINDS", 5)}
	depth := ndParam("DEPTH", 2)
	g.line(0, "package p")
	g.line(0, "")
	g.line(0, "var flag0, flag1, flag2, flag3, flag4, flag5, flag6, flag7 bool")
	g.line(0, "")
	g.line(0, "func f(x *int) *int {")
	g.line(1, "y := x")
	g.line(1, "var z *int")
	g.line(1, "_, _ = y, z")
	retNil := g.stmt(depth, 1, g.xnil)
	g.line(0, "}")
	src := g.b.String()

	fset := token.NewFileSet()
	file, err := parser.ParseFile(fset, "p.go", src, 0)
	if err != nil {
		panic("generated source does not parse: " + err.Error() + "\n" + src)
	}
	pkg := types.NewPackage("m/p", "p")
	spkg, _, err := ssautil.BuildPackage(&types.Config{}, fset, pkg, []*ast.File{file}, ssa.BuildSerially)
	if err != nil {
		panic("generated source does not type-check: " + err.Error() + "\n" + src)
	}
	fn := spkg.Func("f")
	// C17: the SSA function is shared with every other analyzer of the run (buildssa); contract inference must not touch it
	blocksBefore := append([]*ssa.BasicBlock(nil), fn.Blocks...)
	contracts := inferContracts(fn)
	intact := len(fn.Blocks) == len(blocksBefore)
	for k := range blocksBefore {
		if intact && (fn.Blocks[k] != blocksBefore[k] || fn.Blocks[k].Index != k) {
			intact = false
		}
	}
	ndAssert("C17.contract_inference_leaves_the_shared_ssa_function_unchanged", intact)
	inferred := false
	for _, c := range contracts {
		if len(c.Ins) == 1 && len(c.Outs) == 1 && c.Ins[0] == NonNil && c.Outs[0] == NonNil {
			inferred = true
		}
	}
	ndObserveBool("contract_inferred", inferred)
	ndObserveStr("source", src)
	if inferred {
		// the inferred contract must be true of every execution: x non-nil => result non-nil
		ndAssert("C20.K1.inferred_nonnil_to_nonnil_contract_is_true", ndImplies(ndNot(g.xnil), ndNot(retNil)))
	}
}
