"""Per-property registration of symx harness runs (see DESIGN.md section 4)."""

COMMON_ASSUMPTIONS = [
    "int/uint/uintptr are 64-bit two's-complement bit-vectors (as on the build host)",
    "symbolic strings are printable ASCII of the stated maximum length",
    "single-threaded execution; package initialisers are run only for packages named by //verif:init",
    "std-lib leaf functions listed in coverage.trusted_base behave as documented",
]

PROPERTIES = {}

PROPERTIES["C19"] = dict(
    explanation="symx executes tokenhelper.Converse/Inverse from the SSA of /repo's working tree with a symbolic token and symbolic operands; "
                "every switch arm is a solver-decided fork and every assertion is one (check-sat pc ∧ ¬A) query over all operand values.",
    bounds=dict(quick="token in 0..127 (all go/token values); operands: all int64 pairs, all uint64 pairs, ASCII strings of length <= 6",
                thorough="same; string length <= 10"),
    outside=["floating-point operands (NaN breaks inverse for ordered comparisons in Go itself; NilAway only rewrites nil/len/int comparisons)"],
    exhaustive=True,
    assumptions=COMMON_ASSUMPTIONS,
    runs=[
        dict(pkg="util/tokenhelper", files=["util_tokenhelper/zz_verif_c19.go"], entry="Harness_C19_K1_int", args=dict(sample_every=7)),
        dict(pkg="util/tokenhelper", files=["util_tokenhelper/zz_verif_c19.go"], entry="Harness_C19_K1_uint", args=dict(sample_every=7)),
        dict(pkg="util/tokenhelper", files=["util_tokenhelper/zz_verif_c19.go"], entry="Harness_C19_K1_string", args=dict(sample_every=7)),
    ],
)
