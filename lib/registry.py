"""Per-property registration of symx harness runs (see DESIGN.md section 4)."""

COMMON_ASSUMPTIONS = [
    "int/uint/uintptr are 64-bit two's-complement bit-vectors (as on the build host)",
    "symbolic strings are printable ASCII of the stated maximum length",
    "single-threaded execution; package initialisers are run only for packages named by //verif:init",
    "std-lib leaf functions listed in coverage.trusted_base behave as documented",
]

PROPERTIES = {}

TOKEN_FILES = ["util_tokenhelper/zz_verif_c19.go", "util_tokenhelper/zz_verif_c14rel.go"]

PROPERTIES["C19"] = dict(
    explanation="symx executes tokenhelper.Converse/Inverse from the SSA of /repo's working tree with a symbolic token and symbolic operands; "
                "every switch arm is a solver-decided fork and every assertion is one (check-sat pc ∧ ¬A) query over all operand values.",
    bounds=dict(quick="K1: token in 0..127 (all go/token values); operands: all int64 pairs, all uint64 pairs, ASCII strings of length <= 6. "
                      "K2: AddNilCheck on x OP nil, nil OP x, len(a) OP k, k OP len(a), len(a)-c / len(a)+c compared with 0 in both operand orders; all six operators; len(a) in [0,2^62], constants in [-2^62,2^62]. K2b: base / converse / inverse spellings of every type-correct comparison over nil, x, len(a), len(a)+-c, constants in [-3,3] and non-constant ints must attribute the same facts to corresponding branches",
                thorough="same"),
    outside=["floating-point operands (NaN breaks inverse for ordered comparisons in Go itself; NilAway only rewrites nil/len/int comparisons)",
             "K2: the nested-len heuristics the source itself labels 'technically unsound' (len(a)-1+b compared with positive constants) are not asserted sound; only the matchers documented as sound are"],
    exhaustive=True,
    assumptions=COMMON_ASSUMPTIONS,
    runs=[
        dict(pkg="util/tokenhelper", files=TOKEN_FILES, entry="Harness_C19_K1_int", args=dict(sample_every=7)),
        dict(pkg="util/tokenhelper", files=TOKEN_FILES, entry="Harness_C19_K1_uint", args=dict(sample_every=7)),
        dict(pkg="util/tokenhelper", files=TOKEN_FILES, entry="Harness_C19_K1_string", args=dict(sample_every=7)),
        dict(pkg="assertion/function/assertiontree", files=["assertiontree/zz_verif_c02.go", "assertiontree/zz_verif_c02stmt.go", "assertiontree/zz_verif_c19k2b.go"], entry="Harness_C19_K2", native=False, args=dict(sample_every=17)),
        dict(pkg="assertion/function/assertiontree", files=["assertiontree/zz_verif_c02.go", "assertiontree/zz_verif_c02stmt.go", "assertiontree/zz_verif_c19k2b.go"], entry="Harness_C19_K2b", native=False, args=dict(sample_every=17)),
    ],
)

PROPERTIES["C12"] = dict(
    explanation="symx executes (*Config).IsPkgInScope, config.run (flag parsing into the lists), (*Config).IsFileInScope and asthelper.DocContains from SSA; "
                "prefix lists, package path, comment texts and positions are symbolic; each loop iteration's HasPrefix/Contains is a solver-decided fork and the "
                "result on every path is compared with the flat specification formula by one query.",
    bounds=dict(quick="<=2 include and <=2 exclude prefixes, strings <=6 chars; 7x7 concrete flag texts; <=2 comment groups (symbolic text <=6 chars, optionally followed by / replaced by the templ marker), <=2 exclude docstrings (<=6 chars)",
                thorough="<=3 include and <=3 exclude prefixes, strings <=8 chars; <=3 comment groups, <=2 exclude docstrings"),
    outside=["that out-of-scope files contribute no sites inside the whole-package AST walks of each sub-analyzer",
             "NoLintAnalyzer exports its fact regardless of scope (not among the facts the statement lists)",
             "multi-line / block comments and //go: directives in (*ast.CommentGroup).Text (std lib)"],
    assumptions=COMMON_ASSUMPTIONS + ["file.Comments is sorted by position (go/parser guarantees it)",
                                      "(*ast.CommentGroup).Text of one //-line comment without leading/trailing blank or ':' is the text plus a newline (validated natively on sampled paths)"],
    runs=[
        dict(pkg="config", files=["config/zz_verif_c12.go"], entry="Harness_C12_K1",
             quick=dict(params=dict(NI=2, NE=2, STRLEN=6)), thorough=dict(params=dict(NI=3, NE=3, STRLEN=8)), args=dict(sample_every=11)),
        dict(pkg="config", files=["config/zz_verif_c12.go"], entry="Harness_C12_K1b", args=dict(sample_every=9)),
        dict(pkg="config", files=["config/zz_verif_c12.go"], entry="Harness_C12_K2",
             quick=dict(params=dict(NG=2, NX=2)), thorough=dict(params=dict(NG=3, NX=2)), args=dict(sample_every=5)),
    ],
)

PIPE_FILES = ["pipeline/zz_verif_pipe.go", "pipeline/zz_verif_p08.go", "pipeline/zz_verif_p01.go", "pipeline/zz_verif_p01b.go", "pipeline/zz_verif_p01x.go", "pipeline/zz_verif_p01y.go", "pipeline/zz_verif_p01r.go", "pipeline/zz_verif_p13.go", "pipeline/zz_verif_p13m.go", "pipeline/zz_verif_p10.go", "pipeline/zz_verif_p10r.go", "pipeline/zz_verif_p10v.go", "pipeline/zz_verif_p09.go", "pipeline/zz_verif_p14.go", "pipeline/zz_verif_p12.go", "pipeline/zz_verif_p20.go", "pipeline/zz_verif_p18.go", "pipeline/zz_verif_p07.go", "pipeline/zz_verif_p01t.go", "config::config/zz_verif_export.go", "annotation::annotation/zz_verif_export.go", "assertion/global::global/zz_verif_export.go", "assertion/function/functioncontracts::functioncontracts_export/zz_verif_export.go", "assertion/function::function_export/zz_verif_export.go", "util/tokenhelper::tokenhelper_export/zz_verif_export.go"]
INFER_FILES = ["inference/zz_verif_c05.go", "inference/zz_verif_c05l2.go", "inference/zz_verif_c06.go", "inference/zz_verif_c04.go", "inference/zz_verif_c15.go", "inference/zz_verif_c15m.go", "inference/zz_verif_c08.go", "inference/zz_verif_registry.go",
               "annotation::annotation/zz_verif_export.go"]

PROPERTIES["C05"] = dict(
    explanation="symx executes the inference engine's own observe* functions (L1) and ObservePackage/buildPkgInferenceMap/buildFromSingleFullTrigger on real FullTrigger values (L2) "
                "from SSA. Constraint kinds are concrete choices; the sites they mention are symbolic integers, so every map-key comparison inside the engine is a solver-decided fork "
                "and one path stands for all site assignments with that equality pattern. The oracle (reachability closure / least fixpoint with controlled constraints) is one SMT term; "
                "each assertion is a (check-sat pc ∧ ¬A) query.",
    bounds=dict(quick="L1: <=3 constraints over 3 sites (5 kinds incl. annotations); L2: <=3 triggers/annotations over 2x2 sites (8 kinds incl. controlled triggers)",
                thorough="L1: <=4 constraints over 4 sites and <=5 over 3; L2: <=4 triggers over 2x2 sites"),
    outside=["constraint graphs beyond the bound (the property text's 'randomly beyond the bound' is a different technique and is not done)",
             "how triggers are produced from programs (assertion tree)", "gob codec (see C06)"],
    assumptions=COMMON_ASSUMPTIONS + ["L2 stubs primitivizer.site/fullTrigger: site identity = (key kind, object position, isDeep); validated against the real functions by native replay of sampled paths",
                                      "precondition from duplicateFullTrigger: the consumer site of a controlled trigger is never a call-site parameter site"],
    runs=[
        dict(pkg="inference", files=INFER_FILES, entry="Harness_C05_L1",
             quick=dict(params=dict(S=3, N=3)), thorough=dict(params=dict(S=4, N=4)), args=dict(sample_every=101)),
        dict(pkg="inference", files=INFER_FILES, entry="Harness_C05_L2",
             quick=dict(params=dict(S=2, N=3)), thorough=dict(params=dict(S=2, N=4)), args=dict(sample_every=997)),
        # partitions of the constraints into upstream packages (facts through Export / the codec / ObserveUpstream)
        dict(pkg="inference", files=INFER_FILES, entry="Harness_C06", name="_upstream_fan",
             quick=dict(params=dict(TOPO=3, SP=2, NP=1, NP0=0, NP4=0, ONLYBASE=1, KINDS=3)), thorough=dict(params=dict(TOPO=3, SP=2, NP=1, NP0=0, NP4=0, ONLYBASE=1, KINDS=3)), args=dict(sample_every=499)),
        dict(pkg="inference", files=INFER_FILES, entry="Harness_C06_Chain", name="_upstream_chain",
             quick=dict(params=dict(L=5)), thorough=dict(params=dict(L=6)), args=dict(sample_every=499)),
    ],
)

C06_EXPL = ("symx executes InferredMap.Export, chooseSitesToExport, inferredValDiff, Engine.ObserveUpstream (sort + upstreamMapping snapshot), newPrimitivizer's fact scan, "
            "orderedmap.rehydrate and the observe* functions from SSA, package by package over a small package DAG. Site identities and exported flags are symbolic; constraint kinds "
            "and the order in which dependency facts are handed over are choices; the oracle is the order-free whole-program reachability reference as one SMT term.")

PROPERTIES["C06"] = dict(
    explanation=C06_EXPL,
    bounds=dict(quick="two packages A<-B: <=2 constraints each (source/sink/flow) over 2+2 sites with symbolic exported flags; export step alone: <=3 constraints over 4 sites; a chain of 5 flows over 6 sites in all 120 orders with symbolic exported flags; increment: A<-B<-C over the two sites of A (1,1,2 constraints)",
                thorough="A<-B with annotations too (5 kinds); export step alone: <=4 flows over 5 sites and <=4 constraints (3 kinds) over 4 sites"),
    outside=["the bytes produced by encoding/gob + s2 (the codec is executed for real only in the native replay of sampled paths and counterexamples; under symx it is modelled as a structural copy that drops the unexported index)",
             "contract/affiliation/nolint facts", "graphs beyond the bound"],
    assumptions=COMMON_ASSUMPTIONS + ["a package mentions only its own sites and exported sites of its dependencies",
                                      "gob preserves OrderedMap.Pairs in order and drops unexported fields (validated natively on sampled paths)"],
    runs=[
        dict(pkg="inference", files=INFER_FILES, entry="Harness_C06",
             quick=dict(params=dict(TOPO=0, SP=2, NP=2, KINDS=3)), thorough=dict(params=dict(TOPO=0, SP=2, NP=2, KINDS=5)), args=dict(sample_every=1999)),
        dict(pkg="inference", files=INFER_FILES, entry="Harness_C06_Export",
             quick=dict(params=dict(SP=4, NA=3, KINDS=3)), thorough=dict(params=dict(SP=5, NA=4, KINDS=1)), args=dict(sample_every=499)),
        dict(pkg="inference", files=INFER_FILES, entry="Harness_C06_Chain",
             quick=dict(params=dict(L=5)), thorough=dict(params=dict(L=6)), args=dict(sample_every=499)),
        dict(pkg="inference", files=INFER_FILES, entry="Harness_C06", name="_increment",
             quick=dict(params=dict(TOPO=1, SP=2, NP=1, NP2=2, ONLYBASE=1, KINDS=3)), thorough=dict(params=dict(TOPO=1, SP=2, NP=2, NP2=2, ONLYBASE=1, KINDS=3)), args=dict(sample_every=499)),
    ],
)

PROPERTIES["C03"] = dict(
    explanation=C06_EXPL + " C03 uses the chain A<-B<-C (C receives A's fact only transitively) and the diamond A<-{B,C}<-D; the modular result (one engine per package, facts through the codec) "
                "is compared with the whole-program reference over the union of all constraints.",
    bounds=dict(quick="chain of 3 packages: <=1 constraint each over 2 sites per package; diamond of 4 packages: <=1 constraint each over 1 site per package; chain of 3 over the two sites of the base package (1,1,2 constraints); fan base <- 3 siblings <- top (1 constraint per sibling over the two base sites); dependency facts handed over in every order",
                thorough="chain of 3 with all 5 constraint kinds (2 constraints per package did not finish in 45 minutes); diamond with annotations; chain of 3 over the base sites with 2 constraints per package; fan as quick (with constraints in base and top as well the solver cross-check reported session disagreements - fail-closed INCONCLUSIVE - so that configuration is not registered)"),
    outside=["real drivers (go vet -vettool, nogo), real serialisation bytes", "contracts/affiliation/nolint facts", "position re-keying across packages (C15)", "everything above the inference engine"],
    assumptions=COMMON_ASSUMPTIONS + ["a package mentions only its own sites and exported sites of its dependencies",
                                      "go/analysis hands every package the facts of all transitive dependencies (documented driver behaviour)"],
    runs=[
        dict(pkg="inference", files=INFER_FILES, entry="Harness_C06",
             quick=dict(params=dict(TOPO=1, SP=2, NP=1, KINDS=3)), thorough=dict(params=dict(TOPO=1, SP=2, NP=1, KINDS=5)), args=dict(sample_every=499)),
        dict(pkg="inference", files=INFER_FILES, entry="Harness_C06", name="diamond",
             quick=dict(params=dict(TOPO=2, SP=1, NP=1, KINDS=3)), thorough=dict(params=dict(TOPO=2, SP=1, NP=1, KINDS=5)), args=dict(sample_every=1999)),
        dict(pkg="inference", files=INFER_FILES, entry="Harness_C06", name="_chain3_base",
             quick=dict(params=dict(TOPO=1, SP=2, NP=1, NP2=2, ONLYBASE=1, KINDS=3)), thorough=dict(params=dict(TOPO=1, SP=2, NP=2, NP2=2, ONLYBASE=1, KINDS=3)), args=dict(sample_every=499)),
        dict(pkg="inference", files=INFER_FILES, entry="Harness_C06", name="_fan",
             quick=dict(params=dict(TOPO=3, SP=2, NP=1, NP0=0, NP4=0, ONLYBASE=1, KINDS=3)), thorough=dict(params=dict(TOPO=3, SP=2, NP=1, NP0=0, NP4=0, ONLYBASE=1, KINDS=3)), args=dict(sample_every=499)),
        dict(pkg="inference", files=INFER_FILES, entry="Harness_C06_Chain", name="_unexported_helpers",
             quick=dict(params=dict(L=5)), thorough=dict(params=dict(L=6)), args=dict(sample_every=499)),
    ],
)

PROPERTIES["C11"] = dict(
    explanation="symx executes (*diagnostic.Engine).Diagnostics (sort, groupConflicts, the nolint-range filter, involvesTestFile, conflict.String) from SSA on conflicts whose report "
                "line/offset and the nolint range bounds are symbolic; which conflicts were reported, and under which leader, is read off the real messages. "
                "The assertion 'reported iff not on a nolint line' is one solver query per conflict per path over all line/range values.",
    bounds=dict(quick="<=2 conflicts (2 files, 2 nil sources, overconstraint- and single-assertion style), <=2 nolint ranges, lines 1..50, both grouping values, both exclude-test-files values",
                thorough="<=3 conflicts, <=1 range"),
    outside=["how a comment is attached to a statement's line range (ast.NewCommentMap) and the comment-text recogniser nolintContainsNilAway",
             "single-assertion conflicts without a producer position (enclosing-function scan over pass.Files)", "toPos (C14)"],
    assumptions=COMMON_ASSUMPTIONS + ["toPos is replaced by the identity on offsets under symx (its result is not observed); the native replay runs the real toPos"],
    runs=[
        dict(pkg="diagnostic", files=["diagnostic/zz_verif_c11.go", "diagnostic/zz_verif_c14.go", "diagnostic/zz_verif_c04k1.go"], entry="Harness_C11",
             quick=dict(params=dict(N=2, R=2)), thorough=dict(params=dict(N=3, R=1)), args=dict(sample_every=997)),
        dict(pkg="diagnostic", files=["diagnostic/zz_verif_c11.go", "diagnostic/zz_verif_c14.go", "diagnostic/zz_verif_c04k1.go"], entry="Harness_C11_Flow",
             quick=dict(params=dict(N=2)), thorough=dict(params=dict(N=3)), args=dict(sample_every=13)),
    ],
)

PROPERTIES["C13"] = dict(
    explanation="symx executes Diagnostics(false) and Diagnostics(true) on the same symbolic conflicts (groupConflicts, addSimilarConflict, conflict.String, pathString, node.String from SSA) "
                "and compares the two reports location by location; counts are parsed from the real messages.",
    bounds=dict(quick="<=3 conflicts (2 files, 2 nil sources, two conflict styles) and <=4 conflicts in one file (2 nil sources: two groups with absorbed members), symbolic offsets (every sort order)", thorough="<=4 conflicts with all dimensions, <=4 in one file (5 in one file did not finish in 30 minutes and is not registered)"),
    outside=["the pretty-printing sentence: PrettyPrintErrorMessage is three regexp.ReplaceAllString calls with capture groups; symbolic text through the regexp VM is out of reach "
             "(see DESIGN.md section 4, C13 and section 6 item 4: by inspection it drops the double quotes around positions)",
             "single-assertion conflicts without a producer position"],
    assumptions=COMMON_ASSUMPTIONS,
    runs=[
        dict(pkg="diagnostic", files=["diagnostic/zz_verif_c11.go", "diagnostic/zz_verif_c14.go", "diagnostic/zz_verif_c04k1.go"], entry="Harness_C13",
             quick=dict(params=dict(N=3)), thorough=dict(params=dict(N=4)), args=dict(sample_every=499)),
        dict(pkg="diagnostic", files=["diagnostic/zz_verif_c11.go", "diagnostic/zz_verif_c14.go", "diagnostic/zz_verif_c04k1.go"], entry="Harness_C13", name="_two_groups",
             quick=dict(params=dict(N=4, FILES=1, STYLES=1)), thorough=dict(params=dict(N=4, FILES=1, STYLES=1)), args=dict(sample_every=499)),
    ],
)

PROPERTIES["C10"] = dict(
    explanation="K1: symx executes the annotation Val algebra, nilabilitySet.checkNilability and (*ObservedMap).Range from SSA with all four flags of every Val, every isFinalVal argument "
                "and both type-default predicates symbolic: each assertion is decided for all flag values at once. K2: the inference engine's observe* functions with an annotation observed first, "
                "followed by <=N symbolic constraints (as C05 L1).",
    bounds=dict(quick="K1: chains of <=3 make* operations; <=3 map entries over 6 annotation-map kinds; K2: annotation + <=3 constraints over 3 sites",
                thorough="K1: chains of <=4; K2: annotation + <=4 constraints over 4 sites"),
    outside=["the comment grammar (seqRegex is a compiled regexp; the regexp VM on symbolic text is out of reach and package initialisers are not run)",
             "lookup of annotated names in declarations (newObservedMap: AST + types.Info)", "multi-package layouts beyond C03"],
    assumptions=COMMON_ASSUMPTIONS + ["TypeIsDefaultNilable / TypeIsDeepDefaultNilable are replaced by the two Booleans they return under symx; the native replay uses real types with those defaults"],
    exhaustive=False,
    runs=[
        dict(pkg="annotation", files=["annotation/zz_verif_c10.go"], entry="Harness_C10_Algebra",
             quick=dict(params=dict(OPS=3)), thorough=dict(params=dict(OPS=4)), args=dict(sample_every=29)),
        dict(pkg="annotation", files=["annotation/zz_verif_c10.go"], entry="Harness_C10_Check", args=dict(sample_every=2)),
        dict(pkg="annotation", files=["annotation/zz_verif_c10.go"], entry="Harness_C10_Range",
             quick=dict(params=dict(ENTRIES=2)), thorough=dict(params=dict(ENTRIES=3)), args=dict(sample_every=499)),
        dict(pkg="inference", files=INFER_FILES, entry="Harness_C10_Binding",
             quick=dict(params=dict(S=3, N=3)), thorough=dict(params=dict(S=4, N=4)), args=dict(sample_every=499)),
    ],
)

PROPERTIES["C04"] = dict(
    explanation="symx treats the iteration order of every Go map as a choice point (n! orders) and the order in which dependency facts arrive as a choice. Each kernel is executed twice inside "
                "one path with independent orders and the insertion-ordered inferred map (whose Pairs sequence determines the gob bytes of the exported fact) / the exported nolint ranges must be "
                "identical; scalar values stay symbolic and are decided by the solver.",
    bounds=dict(quick="K1: 2 suppressed statements with symbolic line ranges in a 5-line file, 4 comment spellings; K2: 2 annotated sites (fields / package variables, shallow+deep); K3: 2-3 controlled triggers under one controller; K4: two dependency facts from 1 constraint each over 4 sites",
                thorough="K1: 2 statements (3 did not finish in 40 minutes and is not registered); K2: 2-3 annotated sites; K3: 2-4 triggers; K4: <=2 constraints each"),
    outside=["goroutine scheduling and channel arrival order in function.run (C16's machinery)", "GOMAXPROCS", "the gob encoder itself",
             "map iteration inside AST-walking code (duplicateFullTriggersFromContractedFunctionsToCallers, affiliation, ...) - not yet encoded"],
    assumptions=COMMON_ASSUMPTIONS + ["a native run cannot choose map iteration order: counterexamples are confirmed natively by repeating the run (the two replays inside one run use the runtime's random orders)"],
    runs=[
        dict(pkg="diagnostic", files=["diagnostic/zz_verif_c11.go", "diagnostic/zz_verif_c14.go", "diagnostic/zz_verif_c04k1.go"], entry="Harness_C04_K1", map_order=True,
             quick=dict(params=dict(STMTS=2)), thorough=dict(params=dict(STMTS=2)), args=dict(sample_every=499)),
        dict(pkg="diagnostic", files=["diagnostic/zz_verif_c11.go", "diagnostic/zz_verif_c14.go", "diagnostic/zz_verif_c04k1.go"], entry="Harness_C04_K5",
             quick=dict(params=dict(N=2)), thorough=dict(params=dict(N=3)), args=dict(sample_every=29)),
        dict(pkg="inference", files=INFER_FILES, entry="Harness_C04_K2", map_order=True,
             quick=dict(params=dict(ENTRIES=2)), thorough=dict(params=dict(ENTRIES=3)), args=dict(sample_every=199)),
        dict(pkg="inference", files=INFER_FILES, entry="Harness_C04_K3", map_order=True,
             quick=dict(params=dict(TRIGGERS=3)), thorough=dict(params=dict(TRIGGERS=4)), args=dict(sample_every=1)),
        dict(pkg="inference", files=INFER_FILES, entry="Harness_C04_K4",
             quick=dict(params=dict(SP=2, NP=1)), thorough=dict(params=dict(SP=2, NP=2)), args=dict(sample_every=499)),
    ],
)

PROPERTIES["C15"] = dict(
    explanation="symx executes the real String() methods of the annotation key kinds and the real (*primitivizer).site from SSA on two keys over the same declaring object; names are symbolic "
                "identifiers, indices and call-site line/column symbolic integers, key kinds a choice. fmt.Sprintf with symbolic operands becomes str.++ (bounded integers as ite-chains over their "
                "decimal forms) and 'equal identities => same key' is one solver query per kind pair.",
    bounds=dict(quick="7 function-based key kinds pairwise (49 ordered pairs) and 4 variable-based kinds + type names; identifiers <=3 chars; indices and call-site line/column in 0..3; re-keying: name <=4 chars, arbitrary positions",
                thorough="same with indices and line/column in 0..11 (covers one- versus two-digit confusions)"),
    outside=["objects without an object path seen with imprecise positions (the re-keying mechanism does not cover them by its own documentation)",
             "instantiations of one generic function (same source object, deliberately one site)",
             "keys over different declaring objects: separated by the Position field under the type checker's contract that distinct objects have distinct positions (assumed, not checked)"],
    assumptions=COMMON_ASSUMPTIONS + ["names are Go identifiers", "two fields of one struct have different names",
                                      "toPosition is injective on positions of one file set (stub contract; the native replay runs the real one on a single-line file)",
                                      "objectPath of a package-level exported object is its name (stub contract; real objectpath fast path natively)"],
    runs=[
        dict(pkg="inference", files=INFER_FILES, entry="Harness_C15_FuncKeys",
             quick=dict(params=dict(LOCMAX=3)), thorough=dict(params=dict(LOCMAX=11)), args=dict(sample_every=23)),
        dict(pkg="inference", files=INFER_FILES, entry="Harness_C15_VarKeys", args=dict(sample_every=2)),
        dict(pkg="inference", files=INFER_FILES, entry="Harness_C15_Stable", args=dict(sample_every=1)),
        dict(pkg="inference", files=INFER_FILES, entry="Harness_C15_StableMethod", args=dict(sample_every=1)),
    ],
)

C02_FILES = ["assertiontree/zz_verif_c02.go", "assertiontree/zz_verif_c02stmt.go", "assertiontree/zz_verif_c19k2b.go"]
C02_EXPL = ("symx executes preprocess.(*Preprocessor).CFG (copyGraph, canonicalizeConditional and the other passes), blocksAndPreprocessingFromCFG and AddNilCheck with its closures from SSA on a CFG whose "
            "entry block ends with a generated guard condition. The condition's shape is a choice; the nil-ness of x and y and the value of the opaque atom are symbolic Booleans, so every claim "
            "about a branch is decided for all valuations by the solver.")

PROPERTIES["C02"] = dict(
    explanation=C02_EXPL,
    bounds=dict(quick="conditions of nesting depth <=2 over x==nil, x!=nil, nil==y, nil!=y, c, !, (), &&, ||  (and, for A1/A2 only, ==true / !=false / false== / !=true); value switches `switch x { ... }` with 1-3 clauses of 1-2 values from {nil, s, t}, optional default, built by the REAL cfg.New, as first statement of a block or not",
                thorough="nesting depth <=3 with at most 3 atoms (listed spellings; 267154 conditions - unrestricted depth 3 is ~1.5e8 shapes and was never run), depth <=2 with boolean-literal comparisons"),
    outside=["that a recognised guard discharges the consumer in the assertion tree (AddProduction / backpropagation), loop back edges, switch x {case nil:}, early returns: inside C01's unreachable core",
             "the second sentence of the statement (zero diagnostics for fully guarded programs; precision for single-call-site programs)",
             "native replay: the recorder that replaces (*RootAssertionNode).AddProduction exists only under symx, so sampled paths are not re-run natively for this check"],
    assumptions=COMMON_ASSUMPTIONS + ["(*RootAssertionNode).AddProduction is replaced by a recorder (the assertion tree is outside the kernel)", "pass.TypesInfo.Types is empty, so IsNil takes its literal path (a shadowed `nil` is outside)"],
    runs=[
        dict(pkg="assertion/function/assertiontree", files=C02_FILES, entry="Harness_C02", native=False,
             quick=dict(params=dict(DEPTH=2, BOOL_LITERALS=0)), thorough=dict(params=dict(DEPTH=3, BOOL_LITERALS=0, LEAVES=3)), args=dict(sample_every=997)),
        dict(pkg="assertion/function/assertiontree", files=C02_FILES, entry="Harness_C02", name="_boollits", native=False,
             quick=dict(params=dict(DEPTH=2, BOOL_LITERALS=1)), thorough=dict(params=dict(DEPTH=2, BOOL_LITERALS=1)), args=dict(sample_every=997)),
        dict(pkg="assertion/function/assertiontree", files=C02_FILES, entry="Harness_C02_Switch", native=False,
             quick=dict(params=dict(CLAUSES=3)), thorough=dict(params=dict(CLAUSES=3)), args=dict(sample_every=97)),
    ],
)


def confirm_c17_templ(vs, outdir):
    """Native confirmation: an analyzer sharing the pass with NilAway inspects the literal CFGs of the templ test package."""
    import json, os, subprocess
    ov = os.path.join(outdir, "overlay_c17_probe.json")
    json.dump({"Replace": {os.environ.get("VERIF_REPO", "/repo") + "/zz_verif_c17_probe_test.go": "/verif/harness/native/zz_verif_c17_probe_test.go"}}, open(ov, "w"))
    env = dict(os.environ, GOFLAGS="-mod=mod", GOPROXY="off")
    r = subprocess.run(["go", "test", "-vet=off", "-count=1", "-run", "^TestVerifC17TemplProbe$", "-overlay", ov, "."], cwd=os.environ.get("VERIF_REPO", "/repo"), env=env,
                       stdout=subprocess.PIPE, stderr=subprocess.STDOUT, text=True)
    return r.returncode != 0 and "shared function-literal CFG was modified" in r.stdout


PROPERTIES["C17"] = dict(
    explanation=C02_EXPL + " For C17 the harness renders everything reachable from the driver-shared inputs (CFG blocks, their Nodes/Succs backing arrays, the AST) canonically before and after the kernel "
                "on every explored path and requires equality, plus no aliasing between the result and the input. The templ harness does the same for the function literal's CFG obtained through ctrlflow.",
    bounds=dict(quick="guard conditions of depth <=2 (13 constructors) in a 3-block CFG; function bodies with a value switch (live, or dead after a return together with a range loop) whose CFG comes from the real cfg.New; templ component functions whose literal CFG has 1..3 blocks (live or dead) with 0..2 returns each, both package path spellings; contract inference on the real SSA of all 775 depth-1 functions of the C20-K1 grammar (fn.Blocks unchanged)",
                thorough="guard conditions of depth <=3 with at most 3 atoms"),
    outside=["every other consumer of shared input (assertion-tree construction, anonymousfunc, structfield, contract inference over shared SSA): whole-analysis code; a source scan found in-place writes to Nodes/Succs/Blocks only in preprocess",
             "type-switch marking (markTypeSwitchStatements) on non-empty bodies"],
    assumptions=COMMON_ASSUMPTIONS + ["(*ctrlflow.CFGs).FuncLit and (*types.Package).Path are stubs returning harness values (type-checker / ctrlflow contract)",
                                      "the templ harness has no symbolic scalars: its paths are the executor's exhaustive choice enumeration; the native confirmation is TestVerifC17TemplProbe on the repository's templ test package"],
    runs=[
        dict(pkg="assertion/function/assertiontree", files=C02_FILES, entry="Harness_C02", native=False,
             quick=dict(params=dict(DEPTH=2, BOOL_LITERALS=1)), thorough=dict(params=dict(DEPTH=3, BOOL_LITERALS=0, LEAVES=3)), args=dict(sample_every=997)),
        dict(pkg="assertion/function/assertiontree", files=C02_FILES, entry="Harness_C02_Switch", native=False,
             quick=dict(params=dict(CLAUSES=3)), thorough=dict(params=dict(CLAUSES=3)), args=dict(sample_every=97)),
        dict(pkg="assertion/function/preprocess", files=["preprocess/zz_verif_c17.go"], entry="Harness_C17_Templ", native=False, confirm=confirm_c17_templ, args=dict(sample_every=97)),
        dict(pkg="assertion/function/functioncontracts", files=["functioncontracts/zz_verif_c20.go"], entry="Harness_C20_K1", name="_shared_ssa",
             quick=dict(params=dict(DEPTH=1)), thorough=dict(params=dict(DEPTH=2, CONDS=2, RESULTS=2)), args=dict(sample_every=37)),
    ],
    extra=[],
)

PROPERTIES["C09"] = dict(
    explanation="symx executes (*Affiliation).computeTriggersForTypes, computeAfflitiationCacheKey, getFullyQualifiedName and createFunctionTriggers from SSA on two conversions of one struct type to two "
                "interfaces (J may embed I; method names place J's own methods before or after I's in the sorted method set), in either order, the first possibly known only through the upstream Cache. "
                "Under symx the type checker's query API is a contract stub; the native replay of every sampled path and counterexample runs the REAL type checker on generated source and calls the same kernel.",
    bounds=dict(quick="2 interfaces (I: 1-2 methods; J: embeds I or not, 0-2 own methods), 1 struct, 0/1 parameter per method, both event orders, local or upstream first event",
                thorough="same"),
    outside=["conversion sites other than `var i I = S{}` inside a function (assignment, argument, return, composite literal, append): the collector runs for real in Harness_C09_Real but only on that form", "the semantics of the affiliation triggers in inference (C05)", "value vs pointer receivers, embedded structs",
             "this kernel has no symbolic scalars: the paths are the executor's exhaustive enumeration of the shape choices"],
    assumptions=COMMON_ASSUMPTIONS + ["go/types contract used by the stubs: (*Interface).Method enumerates the complete method set sorted by name; (*Func).FullName names the declaring type; (*Named).String is the qualified name; LookupFieldOrMethod finds the struct's method by name (validated by the native replay against the real type checker)"],
    runs=[
        dict(pkg="assertion/affiliation", files=["affiliation/zz_verif_c09.go", "affiliation/zz_verif_c09real.go", "config::config/zz_verif_export.go"], entry="Harness_C09", args=dict(sample_every=5, max_samples=40)),
        dict(pkg="assertion/affiliation", files=["affiliation/zz_verif_c09.go", "affiliation/zz_verif_c09real.go", "config::config/zz_verif_export.go"], entry="Harness_C09_Real", args=dict(sample_every=7, max_samples=40)),
    ],
)

PROPERTIES["C08"] = dict(
    explanation="K1: symx executes assertiontree.FilterTriggersForErrorReturn from SSA on <=N triggers spread over return statements; what the nilability callback answers for each error producer is a "
                "symbolic value, so which of the four cases (nil / non-nil / mixed / unknown) applies is a solver-decided fork and the deletion/rewrite of every trigger is compared with the convention's "
                "specification. K2: Engine.ObservePackage (steps 1-4, both inference rounds, the producer-nilability callback) on the triggers of `return nil, e2()` + a contracted callee + a dereference, in every arrival order.",
    bounds=dict(quick="K1: <=3 triggers over 2 return statements, 3 consumer kinds, symbolic producer nilability; K2: 6 triggers, all 720 orders, value result incorporated in the first or the second round",
                thorough="K1: <=4 triggers over 2 return statements"),
    outside=["classification of return expressions (isErrorReturnNil/Nonnil), rich-check effects and the caller side (err != nil guards): AST / assertion-tree code inside C01's core",
             "the documented design choice that an undetermined error site counts as non-nil (ObservePackage's comment; a stated false negative, not asserted against)", "ok-returning functions"],
    assumptions=COMMON_ASSUMPTIONS + ["K2 stubs primitivizer.site/fullTrigger as in C05 L2 (validated natively)"],
    runs=[
        dict(pkg="inference", files=INFER_FILES, entry="Harness_C08_Filter",
             quick=dict(params=dict(STMTS=2, N=3)), thorough=dict(params=dict(STMTS=2, N=4)), args=dict(sample_every=97)),
        dict(pkg="inference", files=INFER_FILES, entry="Harness_C08_Rounds", args=dict(sample_every=97)),
        dict(pkg="accumulation", files=PIPE_FILES, entry="Harness_P08", args=dict(sample_every=23, max_samples=16)),
    ],
)

K3_PKGS = ["annotation", "assertion/global", "assertion/structfield", "assertion/affiliation", "assertion/function", "assertion/function/functioncontracts",
           "assertion/function/structfieldeffects", "assertion/anonymousfunc", "assertion", "accumulation"]
for _d in K3_PKGS:
    _n = _d.replace("/", "_")
    PROPERTIES["C12"]["runs"].append(dict(pkg=_d, files=["k3/%s/zz_verif_k3.go" % _n, "k3/%s/zz_verif_k3_registry.go" % _n, "config::config/zz_verif_export.go"],
                                          entry="Harness_C12_K3", name="_" + _n, args=dict(sample_every=1)))
PROPERTIES["C12"]["bounds"]["quick"] += "; K3: each of the 10 analyzers' run functions entered with one symbolic include prefix, an optional symbolic exclude prefix (<=5 chars) and a symbolic out-of-scope path (<=6 chars)"
PROPERTIES["C12"]["bounds"]["thorough"] += "; K3 as quick"

PROPERTIES["C07"] = dict(
    explanation="symx executes analysishelper.WrapRun[T] (generic instantiation, deferred recover) and accumulation.run with its deferred recover from SSA under seven failure behaviours of the wrapped "
                "function (normal, error, panic(string), panic(error), nil-map write, failed type assertion, nil dereference) and four faults of the top-level analyzer; analyzer name and panic/error text are symbolic strings, "
                "so the claims about the produced messages (prefix, wrapped error, panic value) are solver-decided string queries.",
    bounds=dict(quick="7 behaviours x 3 pass shapes for WrapRun; 4 faults for accumulation.run; symbolic strings <=5 chars", thorough="same"),
    outside=["the universal part of the statement - termination and absence of internal errors FOR EVERY PACKAGE - needs the whole analysis on symbolic programs (C01's core): not decided",
             "the fixpoint round bound (checkCFGFixedPointRuntime) and _maxFuncSizeInCFGBlocks", "goroutine panics inside function.run (C16)"],
    assumptions=COMMON_ASSUMPTIONS + ["runtime/debug.Stack returns a constant under symx", "every kernel harness of the other properties additionally treats any internal panic on a feasible path as a violation"],
    runs=[
        dict(pkg="util/analysishelper", files=["analysishelper/zz_verif_c07.go"], entry="Harness_C07_WrapRun", args=dict(sample_every=1)),
        dict(pkg="accumulation", files=["accumulation/zz_verif_c07.go", "config::config/zz_verif_export.go"], entry="Harness_C07_Accumulation", args=dict(sample_every=1)),
    ],
)

PROPERTIES["C14"] = dict(
    explanation="symx executes (*diagnostic.Engine).AddOverconstraintConflict on explanation chains of length 1-3 per side with symbolic positions, and NewEngine + (*Engine).toPos together with the REAL go/token "
                "FileSet/File code they drive (AddFile, SetLines, AddLine, LineStart, Pos, Position) for real, fake (archive) and unknown files with a symbolic line and column. "
                "File names: tokenhelper.RelToCwd with the real path/filepath code on an enumerated set of working directories and file locations - the name it returns, resolved against the working directory, must denote the same file (enumeration only: symbolic path strings were undecidable for all three solvers within the time limit).",
    bounds=dict(quick="explanation chains <=3 per side, root by trigger or by annotation; files: 8-line real file, fake file with 1-4 known lines, unknown file; line 1..8, column 1..9; two diagnostics per file; RelToCwd: 2 working directories x 6 placements x 7 names", thorough="same"),
    outside=["existence of the files on disk, real drivers, PrintFullFilePath, working directories and names other than the enumerated ones, symbolic links, Windows paths", "lines beyond the fake file's 65536 fake lines",
             "that each flow step's printed file:line:column exists (the steps' positions come from the analysed program)"],
    assumptions=COMMON_ASSUMPTIONS + ["os.Getwd returns a constant under symx (tokenhelper's initialiser is executed)", "explanations are harness implementations of inference.ExplainedBool (the engine's own carry an unexported type)"],
    runs=[
        dict(pkg="diagnostic", files=["diagnostic/zz_verif_c11.go", "diagnostic/zz_verif_c14.go", "diagnostic/zz_verif_c04k1.go"], entry="Harness_C14_Conflict", args=dict(sample_every=3)),
        dict(pkg="diagnostic", files=["diagnostic/zz_verif_c11.go", "diagnostic/zz_verif_c14.go", "diagnostic/zz_verif_c04k1.go"], entry="Harness_C14_ToPos", args=dict(sample_every=31)),
        dict(pkg="util/tokenhelper", files=TOKEN_FILES, entry="Harness_C14_Rel", args=dict(sample_every=3)),
    ],
)


PROPERTIES["C20"] = dict(
    explanation="K1 (the contract is true): the harness prints a one-parameter one-result pointer function from a depth-bounded grammar (if/else, early returns, conditional assignments to a local, "
                "nil checks of x and y in both operand orders, opaque conditions); the REAL go/parser, go/types checker and go/ssa builder - executed from SSA by symx after running their package initialisers, nothing stubbed - "
                "build the ssa.Function that the REAL inferContracts analyses; the function's semantics is one SMT term over 'x is nil' and the opaque conditions, and 'contract inferred => for all valuations with x non-nil "
                "the result is non-nil' is one solver query per program. K2 (call-site gating in the inference engine): symx executes Engine.ObservePackage / buildPkgInferenceMap / buildFromSingleFullTrigger / activateControlledTriggers from SSA on real FullTrigger "
                "values that include CONTROLLED triggers (the form in which an inferred nonnil->nonnil contract reaches the engine: 'the call-site result is nilable if the call-site argument is'), with annotations "
                "replayed first, symbolic site identities and every arrival order; the oracle is the least fixpoint of 'nilable' in which a controlled constraint exists iff its controller site is nilable. "
                "K3 (call-site bookkeeping): the REAL duplicateFullTriggersFromContractedFunctionsToCallers runs on a parsed and type-checked package whose caller nests calls of contracted (f, g), non-contracted (h) and two-contract (k) functions; "
                "every contracted call, wherever it is nested, must get exactly one controlled copy of the callee's param->return trigger located at that call (shape enumeration, no symbolic scalars).",
    bounds=dict(quick="K3: 1 statement of expression depth 2 / 2 statements of depth 1 over {x, f(), g(), h(), k(), ()}; K1: all 775 functions of statement depth 1 over 7 condition forms, 5 result forms, 3 assignment forms; K2: <=3 triggers/annotations over 2x2 sites incl. controlled triggers (C05 L2 harness); the six-trigger `return nil, e2()` -> g(v) -> *g(v) scenario in all 720 orders, value result incorporated in either inference round",
                thorough="K1: statement depth 2 over 3 condition forms and 3 result forms; K2: <=4 triggers over 2x2 sites; K3: 2 statements of depth 2, 1 statement of depth 3"),
    outside=["K1 beyond its grammar: loops, calls, field/array/map reads, several parameters, named results, defer/panic; functions deeper than the bound",
             "the call-site sites the assertion tree itself creates (AddComputation: HasContract, getFuncReturnProducers); the duplication of the callee's triggers to every call (findCallsToContractedFunctions, duplicateFullTrigger) IS covered by K3 for calls nested to depth 2-3 in one caller", "cross-package contract facts"],
    assumptions=COMMON_ASSUMPTIONS + ["primitivizer.site/fullTrigger stubbed as in C05 L2 (validated natively)", "the consumer site of a controlled trigger is a call-site return site (duplicateFullTrigger)"],
    runs=[
        dict(pkg="inference", files=INFER_FILES, entry="Harness_C05_L2",
             quick=dict(params=dict(S=2, N=3)), thorough=dict(params=dict(S=2, N=4)), args=dict(sample_every=997)),
        dict(pkg="inference", files=INFER_FILES, entry="Harness_C08_Rounds", args=dict(sample_every=97)),
        dict(pkg="inference", files=INFER_FILES, entry="Harness_C04_K3", map_order=True,
             quick=dict(params=dict(TRIGGERS=3)), thorough=dict(params=dict(TRIGGERS=4)), args=dict(sample_every=1)),
        dict(pkg="assertion/function/functioncontracts", files=["functioncontracts/zz_verif_c20.go"], entry="Harness_C20_K1",
             quick=dict(params=dict(DEPTH=1)), thorough=dict(params=dict(DEPTH=2, CONDS=3, RESULTS=3)), args=dict(sample_every=37)),
        dict(pkg="assertion/function", files=["function/zz_verif_c20k2.go", "config::config/zz_verif_export.go"], entry="Harness_C20_K2",
             quick=dict(params=dict(DEPTH=2, STMTS=1)), thorough=dict(params=dict(DEPTH=2, STMTS=2)), args=dict(sample_every=17)),
        dict(pkg="assertion/function", files=["function/zz_verif_c20k2.go", "config::config/zz_verif_export.go"], entry="Harness_C20_K2", name="_deep",
             quick=dict(params=dict(DEPTH=1, STMTS=2)), thorough=dict(params=dict(DEPTH=3, STMTS=1)), args=dict(sample_every=17)),
    ],
)


PIPE_EXPL = ("Source-level pipeline: the harness prints a closed one-package Go program, and the REAL go/parser, go/types checker and go/cfg builder, then the REAL NilAway stages - annotation reading, "
             "global-variable triggers, nolint collection, assertiontree.BackpropAcrossFunc per function (CFG preprocessing, rich check effects, assertion-tree fixpoint), accumulation.run with the "
             "diagnostic and inference engines - are all executed from SSA by symx with nothing stubbed. ")
PIPE_OUTSIDE = ["the analysis driver and the goroutine fan-out of function.run (the harness calls BackpropAcrossFunc function by function, in declaration order)",
                "ctrlflow's no-return bookkeeping (every call may return); the affiliation, anonymous-function, contract and struct-field analyzers (their results are empty: the grammars have no interfaces to implement, no contracts, no struct fields)",
                "programs outside the stated grammar; more than one package"]
PIPE_ASSUME = COMMON_ASSUMPTIONS + ["process environment empty (os.Getenv), reflect.TypeOf not modelled (only stored in analysis.Analyzer.ResultType), internal/buildcfg.Experiment all-off, sync.Pool never reuses, "
                                    "regexp.MustCompile results shared between paths (pure function of the pattern)"]

PROPERTIES["C01"] = dict(
    explanation=PIPE_EXPL + "C01: the program is drawn from a grammar of the core pointer fragment (two pointer locals, a package-level pointer, nil, new, copies, dereferences, nil-check guards, early returns, "
                "opaque if / if-else, a callee in seven shapes); its semantics is built alongside the text as SMT terms over the opaque flags, and 'some execution of Entry() dereferences nil => at least one "
                "diagnostic' is decided by the solver for every program; a program with exactly one unchecked dereference must be reported on that line, one with none must be clean.",
    bounds=dict(quick="all 742 programs with 2 statements from 9 straight-line forms + guarded dereference, early-return guard, repair, call, opaque if (7 callee shapes)",
                thorough="all programs with 3 statements (same forms) and all with 2 statements including opaque if/else"),
    outside=PIPE_OUTSIDE + ["loops, switches, methods, struct fields, several parameters, recursion, multiple packages (the property's 'any number of packages' half is decided at engine level by C03/C05/C06)",
                            "programs longer than the bound"],
    assumptions=PIPE_ASSUME,
    runs=[
        dict(pkg="accumulation", files=PIPE_FILES, entry="Harness_P01", quick=dict(params=dict(STMTS=2, COMPOUND=5)), thorough=dict(params=dict(STMTS=3, COMPOUND=5)),
             args=dict(sample_every=61, max_samples=20)),
        dict(pkg="accumulation", files=PIPE_FILES, entry="Harness_P01", name="_ifelse", quick=dict(params=dict(STMTS=1, COMPOUND=6)), thorough=dict(params=dict(STMTS=2, COMPOUND=6)),
             args=dict(sample_every=61, max_samples=20)),
    ],
)

PROPERTIES["C07"]["runs"] += [
    dict(pkg="accumulation", files=PIPE_FILES, entry="Harness_P07", quick=dict(params=dict(PAIRS=0)), thorough=dict(params=dict(PAIRS=1)), args=dict(sample_every=7, max_samples=24)),
    dict(pkg="accumulation", files=PIPE_FILES, entry="Harness_P01", name="_total", quick=dict(params=dict(STMTS=2, COMPOUND=5)), thorough=dict(params=dict(STMTS=2, COMPOUND=6)), args=dict(sample_every=97, max_samples=12)),
]
PROPERTIES["C07"]["explanation"] += (" Totality at source level: " + PIPE_EXPL + "P07 assembles a function body from one (thorough: two) of 75 statement templates that cover the node kinds a control-flow graph can carry "
    "(type assertions and function literals as conditions or switch tags, range-over-func with literal/defined/aliased yield types and 0-2 variables, range-over-int, labelled break/continue/goto, tagged and tagless "
    "switches with fallthrough and negated cases, type switches, select, conversions on the left of an assignment, parenthesised multi-value calls, generics, closures, defer/recover, channel operations) and requires "
    "that nothing internal fails; P01's programs carry the same obligation (P01.A4).")
PROPERTIES["C07"]["bounds"]["quick"] += "; source level: each of the 75 statement templates alone, and the 742 two-statement programs of the C01 grammar"
PROPERTIES["C07"]["bounds"]["thorough"] = PROPERTIES["C07"]["bounds"]["quick"] + "; all 5625 ordered pairs of templates"
PROPERTIES["C07"]["outside"] = ["the universal statement (every type-correct package): only the stated template family and grammars are decided; P07 has no symbolic scalars (template enumeration executed by symx and natively)",
    "the fixpoint round bound on functions with more than 128 simultaneously rotating variables (known NilAway limitation reported by a seeding sub-agent, not reproduced by this family)",
    "_maxFuncSizeInCFGBlocks", "goroutine panics inside function.run (C16)"] + PIPE_OUTSIDE
PROPERTIES["C07"]["assumptions"] = PROPERTIES["C07"]["assumptions"] + PIPE_ASSUME[len(COMMON_ASSUMPTIONS):]

PROPERTIES["C02"]["runs"] += [
    dict(pkg="accumulation", files=PIPE_FILES, entry="Harness_P01", name="_guards", quick=dict(params=dict(STMTS=2, COMPOUND=5)), thorough=dict(params=dict(STMTS=3, COMPOUND=5, SIMPLE=5)), args=dict(sample_every=61, max_samples=20)),
]
PROPERTIES["C02"]["explanation"] += (" Source level (P01.A2): " + PIPE_EXPL + "every program of the C01 grammar whose dereferences are all nil-checked (`if x != nil { _ = *x }`, early-return guards, repairs) must get no diagnostic.")
PROPERTIES["C02"]["bounds"]["quick"] += "; source level: the 742 two-statement programs of the C01 grammar"
PROPERTIES["C02"]["bounds"]["thorough"] += "; source level: the three-statement programs of the C01 grammar over 5 straight-line forms (the full set runs under C01)"

PROPERTIES["C08"]["explanation"] += (" Source level (P08): " + PIPE_EXPL + "a callee returning (*int, error) through two return statements (nil/non-nil value x nil/sentinel error, behind an opaque flag or behind the callee's own "
    "`if e := other(); e != nil { return nil, e }`), optionally forwarded by `return callee()`, and a caller in eleven forms (proper != nil / == nil check, no check, blank error, check without return, error variable overwritten by an "
    "assignment or by the next call's := before the check, comparisons with a sentinel instead of nil, two checked calls); the program's semantics over the opaque flags is the oracle: "
    "'Entry can dereference nil => reported' (solver query per program) and 'convention-respecting callee + proper check => no diagnostic'.")
PROPERTIES["C08"]["bounds"]["quick"] += "; source level: all 440 callee x caller programs of the P08 family"
PROPERTIES["C08"]["outside"] = [o for o in PROPERTIES["C08"]["outside"] if not o.startswith("classification of return expressions")] + ["ok-returning functions and named results at source level; return shapes and caller forms beyond the P08 family"] + PIPE_OUTSIDE

PROPERTIES["C13"]["runs"] += [
    dict(pkg=".", files=["root/zz_verif_c13pp.go"], entry="Harness_C13_Pretty", quick=dict(params=dict(CODES=5)), thorough=dict(params=dict(CODES=11)), args=dict(sample_every=29, max_samples=24)),
]
PROPERTIES["C13"]["explanation"] += (" Pretty printing: the REAL PrettyPrintErrorMessage with the real regexp engine (executed from SSA) on messages assembled from NilAway's own message shapes - flow header, 1-2 steps quoting code "
    "fragments in backticks (fragments with %, $, backslash, quotes, parentheses), nilability words, the quoted position list of grouped diagnostics - must give back the plain message once colour sequences and the error prefix are stripped "
    "(enumeration of message shapes: matching regular expressions over symbolic strings is out of solver reach).")
PROPERTIES["C13"]["bounds"]["quick"] += "; pretty printing: 720 message shapes (4 first steps x 5 code fragments, optional second step, 0-2 quoted positions)"
PROPERTIES["C13"]["bounds"]["thorough"] += "; pretty printing: 5544 message shapes (11 code fragments)"
PROPERTIES["C13"]["outside"] = [o for o in PROPERTIES["C13"]["outside"] if "retty" not in o] + ["pretty printing of messages outside the enumerated shapes (arbitrary code text)"]

PROPERTIES["C01"]["runs"] += [
    dict(pkg="accumulation", files=PIPE_FILES, entry="Harness_P01L", quick=dict(params=dict(SIMPLE=5, COMPOUND=2, ORDERS=4)), thorough=dict(params=dict(SIMPLE=9, COMPOUND=4, ORDERS=4)),
         args=dict(sample_every=197, max_samples=20)),
    dict(pkg="accumulation", files=PIPE_FILES, entry="Harness_P01L", name="_two_structured", quick=dict(params=dict(SIMPLE=2, COMPOUND=2, ORDERMIN=4, ORDERS=5)), thorough=dict(params=dict(SIMPLE=5, COMPOUND=2, ORDERMIN=4, ORDERS=5)),
         args=dict(sample_every=197, max_samples=12)),
]
PROPERTIES["C01"]["explanation"] += (" P01L adds one structured statement before or after a base statement (thorough: also two structured statements): a counted loop with an opaque bound, condition loops on x (a body that does not change the "
    "condition diverges), tagless and tagged switches on x == nil with two arms, and calls of pointer-receiver methods that dereference or check their receiver.")
PROPERTIES["C01"]["bounds"]["quick"] += "; P01L: 2160 programs (one structured statement - 4 loop forms incl. a two-statement body, 4 switch forms incl. compound case conditions, 2 guards hoisted above loops, 2 guards combined with another condition, 4 receiver forms over 5 straight-line bodies - next to one of 7 base statements or a nil-checked dereference that returns, in 3 spellings)"
PROPERTIES["C01"]["bounds"]["thorough"] += "; P01L: all programs with one structured statement over 9 straight-line bodies; all pairs of structured statements over 5 bodies"
PROPERTIES["C01"]["outside"] = [o.replace("loops, switches, methods, struct fields", "nested loops, loops around compound statements, struct fields") for o in PROPERTIES["C01"]["outside"]]
PROPERTIES["C02"]["runs"] += [
    dict(pkg="accumulation", files=PIPE_FILES, entry="Harness_P01L", name="_guards", quick=dict(params=dict(SIMPLE=5, COMPOUND=2, ORDERS=4)), thorough=dict(params=dict(SIMPLE=9, COMPOUND=4, ORDERS=4)),
         args=dict(sample_every=197, max_samples=12)),
]
PROPERTIES["C02"]["bounds"]["quick"] += " and the 2160 P01L programs (loops, switch-on-nil incl. compound case conditions, guards hoisted above loops, conjunctions/disjunctions, receivers, guarded dereferences that return)"

PROPERTIES["C08"]["runs"] += [
    dict(pkg="accumulation", files=PIPE_FILES, entry="Harness_P08_Ok", args=dict(sample_every=23, max_samples=16)),
]
PROPERTIES["C08"]["explanation"] += (" P08 also covers named results with bare returns; Harness_P08_Ok is the same family for the (value, ok) form with constant ok operands (two return statements, explicit or through named results, "
    "forwarding, seven caller forms incl. an overwritten ok variable).")
PROPERTIES["C08"]["bounds"]["quick"] = PROPERTIES["C08"]["bounds"]["quick"].replace("all 440 callee x caller programs of the P08 family", "all 2496 callee x caller programs of the P08 family (error form) and all 672 of the (value, ok) form")
PROPERTIES["C08"]["outside"] = [o.replace("ok-returning functions and named results at source level; ", "non-constant ok operands; the precision clause (A2) for bare returns of a named ok result; ") for o in PROPERTIES["C08"]["outside"] if o != "ok-returning functions"]

_P01X = dict(pkg="accumulation", files=PIPE_FILES, entry="Harness_P01X", quick=dict(params=dict(STMTS=2, COMPOUND=5)), thorough=dict(params=dict(STMTS=3, COMPOUND=4, SIMPLE=5)), args=dict(sample_every=61, max_samples=16))
PROPERTIES["C01"]["runs"] += [_P01X]
PROPERTIES["C01"]["explanation"] += (" P01X splits the P01 programs over two packages: the callee and the package-level pointer live in a dependency that is analysed first, its facts (inferred map, nolint) are handed to the importer, "
    "which sees the dependency through a fresh type-check of its source (fresh type objects, as with export data).")
PROPERTIES["C01"]["bounds"]["quick"] += "; P01X: the 1043 two-statement programs split over two packages (callee directly or through an unexported helper)"
PROPERTIES["C01"]["bounds"]["thorough"] += "; P01X: the three-statement programs over 5 straight-line forms split over two packages"
PROPERTIES["C01"]["outside"] = [o.replace("; more than one package", "; more than two packages; facts are handed over by reference (the gob codec is decided by C06)") for o in PROPERTIES["C01"]["outside"]]
PROPERTIES["C03"]["runs"] += [dict(_P01X, name="_modular")]
PROPERTIES["C03"]["explanation"] += (" Source level (P01X): " + PIPE_EXPL + "every program of the C01 grammar is analysed twice - split over a dependency (callee, package-level pointer) and an importer with facts handed over, "
    "and as one package with the dependency's declarations first - and both must report, and report equally many diagnostics.")
PROPERTIES["C03"]["bounds"]["quick"] += "; source level: the 1043 two-statement programs of the C01 grammar (callee directly or through an unexported helper), two packages vs one"
PROPERTIES["C03"]["bounds"]["thorough"] += "; source level: the three-statement programs"

PROPERTIES["C01"]["runs"] += [
    dict(pkg="accumulation", files=PIPE_FILES, entry="Harness_P01", name="_global_forms", quick=dict(params=dict(STMTS=1, COMPOUND=5, GINIT=5)), thorough=dict(params=dict(STMTS=2, COMPOUND=5, GINIT=5)),
         args=dict(sample_every=61, max_samples=16)),
    dict(pkg="accumulation", files=PIPE_FILES, entry="Harness_P01", name="_init_conditional", quick=dict(params=dict(STMTS=1, COMPOUND=5, GFORM=5)), thorough=dict(params=dict(STMTS=2, COMPOUND=5, GFORM=5)),
         args=dict(sample_every=61, max_samples=8)),
]
PROPERTIES["C01"]["explanation"] += (" The package-level pointer is also declared in five initialised forms (no initialiser, `= nil`, `= (nil)`, `= new(int)`, assigned in init()); a sixth form - assigned only conditionally inside init() - "
    "is a recorded known finding of NilAway (false negative) and runs as its own configuration with class-tagged assertion ids.")
PROPERTIES["C01"]["bounds"]["quick"] += "; global declaration forms: 5 forms x the 28 one-statement programs; conditional-init form: 28 programs (known finding: 2 fail)"
PROPERTIES["C01"]["bounds"]["thorough"] += "; global declaration forms: 5 forms x the 742 two-statement programs; conditional-init form: 742 programs (known finding: 82 fail)"

PROPERTIES["C01"]["runs"] += [
    dict(pkg="accumulation", files=PIPE_FILES, entry="Harness_P01R", quick=dict(params=dict(KMAX=9)), thorough=dict(params=dict(KMAX=9)), args=dict(sample_every=17, max_samples=16)),
]
PROPERTIES["C01"]["explanation"] += (" P01R: rotations of 2-9 pointer variables inside a loop with an opaque bound, one initialiser nil, optionally one taken from a parameter, j0 dereferenced after the loop; the solver picks the iteration "
    "count that brings the nil to j0. Rotations whose nil needs six or more rounds are a recorded known finding (NilAway's documented StableRoundLimit).")
PROPERTIES["C01"]["bounds"]["quick"] += "; P01R: all 336 rotation programs with 2-9 variables (known finding: the 21 with the nil six or more positions away fail)"
PROPERTIES["C01"]["bounds"]["thorough"] += "; P01R as quick"

PROPERTIES["C01"]["runs"] += [
    dict(pkg="accumulation", files=PIPE_FILES, entry="Harness_P01", name="_boolean_value", quick=dict(params=dict(STMTS=1, COMPOUND=5, BOOLVAL=1)), thorough=dict(params=dict(STMTS=2, COMPOUND=5, BOOLVAL=1)),
         args=dict(sample_every=61, max_samples=8)),
]
PROPERTIES["C01"]["bounds"]["quick"] += "; a nil check of x inside an && / || expression used as a value, followed by the 28 one-statement programs (56)"
PROPERTIES["C01"]["bounds"]["thorough"] += "; the boolean-value prefix followed by the 742 two-statement programs (1484)"

_P13 = dict(pkg="accumulation", files=PIPE_FILES, entry="Harness_P13", quick=dict(params=dict(STMTS=2, COMPOUND=4)), thorough=dict(params=dict(STMTS=3, COMPOUND=4, SIMPLE=5)), args=dict(sample_every=41, max_samples=16))
PROPERTIES["C13"]["runs"] += [_P13]
PROPERTIES["C13"]["explanation"] += (" Source level (P13): " + PIPE_EXPL + "every program of the C01 grammar is analysed with grouping off and on (and with a nolint comment on one dereference line); with grouping on every location of the "
    "ungrouped report appears exactly once - as a diagnostic position or in one 'other place(s)' list - the stated count equals the list length, and nothing new appears (real messages, parsed by the harness).")
PROPERTIES["C13"]["bounds"]["quick"] += "; source level: the two-statement programs of the C01 grammar x each dereference line"
PROPERTIES["C13"]["bounds"]["thorough"] += "; source level: the three-statement programs"
PROPERTIES["C11"]["runs"] += [dict(_P13, name="_nolint")]
PROPERTIES["C11"]["explanation"] += (" Source level (P13): " + PIPE_EXPL + "a `//nolint:nilaway` comment (real comment map, real NoLint analyzer) on one dereference line of a program of the C01 grammar removes exactly the reports located on that line, with grouping off and on.")
PROPERTIES["C11"]["bounds"]["quick"] += "; source level: the two-statement programs of the C01 grammar x each dereference line"
PROPERTIES["C11"]["bounds"]["thorough"] += "; source level: the three-statement programs over 5 straight-line forms"
_P10 = dict(pkg="accumulation", files=PIPE_FILES, entry="Harness_P10", quick=dict(params=dict(STMTS=2, COMPOUND=4)), thorough=dict(params=dict(STMTS=3, COMPOUND=4)), args=dict(sample_every=41, max_samples=16))
PROPERTIES["C10"]["runs"] += [_P10]
PROPERTIES["C10"]["explanation"] += (" Source level (P10): " + PIPE_EXPL + "the programs of the C01 grammar carry one doc annotation - nilable or nonnil on the callee's parameter, on its result (`result 0`), or nilable on the package-level pointer - "
    "read by the real annotation parser; the annotation changes the oracle: a nilable site holds an arbitrary value (fresh symbolic bool), nil flowing into a nonnil site is an event of its own; "
    "'event possible => reported', 'all dereferences nil-checked and no nonnil annotation => clean', and 'diagnostics only on dereference or flow-in lines' are decided per program.")
PROPERTIES["C10"]["bounds"]["quick"] += "; source level: 4368 programs (parameter, result and package-level annotations - the latter in four declaration forms, nilable and nonnil -, names with and without underscores, x call first/last x one more statement)"
PROPERTIES["C10"]["bounds"]["thorough"] += "; source level: the same with two more statements"

PROPERTIES["C09"]["runs"] += [dict(pkg="accumulation", files=PIPE_FILES, entry="Harness_P09", args=dict(sample_every=13, max_samples=24))]
PROPERTIES["C09"]["explanation"] += (" Source level (P09): " + PIPE_EXPL + "plus the REAL affiliation analyzer. An interface with a getter and a setter, a pointer-receiver and a value-receiver implementation (each returning nil or not, "
    "dereferencing its parameter unchecked or checked), a use() through the interface (unchecked / checked dereference of the result, nil / non-nil argument) and 17 conversion shapes (assignment, argument, either in a branch, both, `:=` reusing an interface variable, return, composite literal, append, a decorator struct embedding the interface and converted to another interface, explicit conversion, package-level variable, grouped named results, indexed literal element, variadic parameter, append on a named slice type, call through a function-typed variable, forwarded multi-value call); "
    "single package and split (interface and use() in a dependency). The dispatch is evaluated over the opaque flag: panic possible => reported; well-behaved implementations => clean.")
PROPERTIES["C09"]["bounds"]["quick"] += "; source level: all 2176 programs of the P09 family (17 conversion shapes; 1088 single-package, 1088 split)"
PROPERTIES["C09"]["outside"] = [o for o in PROPERTIES["C09"]["outside"]] + ["source level: more than two implementations, embedded structs (other than the decorator), composite literals of structs of another package, implementations named through a type alias (reported by a sub-agent as missed by NilAway; outside this family)"]

PROPERTIES["C14"]["runs"] += [dict(pkg="accumulation", files=PIPE_FILES, entry="Harness_P14", quick=dict(params=dict(STMTS=2, COMPOUND=5)), thorough=dict(params=dict(STMTS=3, COMPOUND=4, SIMPLE=5)), args=dict(sample_every=61, max_samples=16))]
PROPERTIES["C14"]["explanation"] += (" Source level (P14): " + PIPE_EXPL + "for every two-package program of the P01X family each diagnostic has a valid position that resolves to an existing line and column of p.go or q.go "
    "(findings in the dependency's file included), its message lists at least one flow step, every positioned step names an existing file:line:column, and the last positioned step is the reported position.")
PROPERTIES["C14"]["bounds"]["quick"] += "; source level: the 1043 two-statement two-package programs"
PROPERTIES["C14"]["outside"] = PROPERTIES["C14"]["outside"] + ["source level: the dependency's file is parsed into the importer's file set (real line tables), not recreated as a fake file from export data - that mapping is the toPos kernel"]

PROPERTIES["C12"]["runs"] += [dict(pkg="accumulation", files=PIPE_FILES, entry="Harness_P12", quick=dict(params=dict(STMTS=2, COMPOUND=4)), thorough=dict(params=dict(STMTS=2, COMPOUND=5)), args=dict(sample_every=61, max_samples=16))]
PROPERTIES["C12"]["explanation"] += (" Source level (P12): " + PIPE_EXPL + "the two-package programs of the C01 grammar are analysed with -exclude-pkgs naming the dependency or the importer: the excluded package's analysis yields no diagnostic and exports no fact, "
    "and excluding the importer leaves the dependency's report and facts unchanged.")
PROPERTIES["C12"]["bounds"]["quick"] += "; source level: the two-statement two-package programs x {dependency excluded, importer excluded}"

PROPERTIES["C01"]["runs"] += [
    dict(pkg="accumulation", files=PIPE_FILES, entry="Harness_P01", name="_parallel_assignment_two_params", quick=dict(params=dict(STMTS=2, COMPOUND=5, SIMPLE=11, CALLEES=13)),
         thorough=dict(params=dict(STMTS=3, COMPOUND=4, SIMPLE=11, CALLEES=13)), args=dict(sample_every=61, max_samples=12)),
]
PROPERTIES["C01"]["bounds"]["quick"] += "; the two-statement programs with parallel assignments (`x, y = y, x`, `x, y = nil, x`) two-parameter callees, a recursive callee and two-result callees (1288)"
PROPERTIES["C01"]["bounds"]["thorough"] += "; the three-statement programs with parallel assignments, two-parameter, recursive and two-result callees"

PROPERTIES["C20"]["runs"] += [dict(pkg="accumulation", files=PIPE_FILES, entry="Harness_P20", args=dict(sample_every=5, max_samples=20))]
PROPERTIES["C20"]["explanation"] += (" Source level (P20): " + PIPE_EXPL + "plus, for this harness, the package's REAL SSA (ssa.NewProgram / CreatePackage / Build on the type-checked AST), the REAL inferContracts on every eligible function, "
    "call-site sites in the assertion tree and the REAL duplication of the callee's triggers. A callee in ten shapes, an argument that is nil / fresh / either behind an opaque flag / the literal nil handed over directly, four uses (direct, nested call, checked, via a local): "
    "'Entry can dereference nil => reported' per program, and 'a true nonnil->nonnil contract keeps non-nil arguments clean'.")
PROPERTIES["C20"]["bounds"]["quick"] += "; source level: all 160 programs of the P20 family"

PROPERTIES["C07"]["runs"] += [
    dict(pkg="accumulation", files=PIPE_FILES, entry="Harness_P07", name="_contracts", quick=dict(params=dict(PAIRS=0, CONTRACTS=1)), thorough=dict(params=dict(PAIRS=0, CONTRACTS=1)), args=dict(sample_every=7, max_samples=16)),
]
PROPERTIES["C07"]["bounds"]["quick"] += "; each template again with hand-written contracts in the package (on a variadic, a parameterless and a one-parameter function), contract collection over the real SSA and trigger duplication switched on"

PROPERTIES["C10"]["runs"] += [dict(pkg="accumulation", files=PIPE_FILES, entry="Harness_P10R", args=dict(sample_every=3, max_samples=12))]
PROPERTIES["C10"]["bounds"]["quick"] += "; P10R: 36 programs (result annotation x receiver spelled anonymous / blank / named x body x use), reported iff the annotated result site demands it"

PROPERTIES["C10"]["runs"] += [dict(_P10, name="_contracts", quick=dict(params=dict(STMTS=2, COMPOUND=2, SIMPLE=5, CONTRACTS=1)), thorough=dict(params=dict(STMTS=2, COMPOUND=4, CONTRACTS=1)))]
PROPERTIES["C10"]["bounds"]["quick"] += "; the same family over 5 straight-line forms with contract collection (real SSA, real inferContracts) switched on"

PROPERTIES["C18"] = dict(
    explanation=PIPE_EXPL + "C18: every two-package program of the C01 grammar is analysed under four layouts - module at /m started in /m; module relocated to /srv/x/m and started there; module at /m but started in /m/p or in /m/q (the dependency's directory). "
                "The working directory is the value tokenhelper captured at start-up (set through an export helper), file names reach NilAway through the file set as a driver registers them, and the dependency's facts "
                "(site identities with relativised file names) are handed to the importer. Relocation and another start directory must give the same positions (file, line, column) and the same set of message texts (the order in which diagnostics are listed follows the relativised file names and is not compared), "
                "i.e. every cross-package flow is still found. The RelToCwd kernel itself (real path/filepath) runs under C14.",
    bounds=dict(quick="the 742 two-statement two-package programs x 4 layouts", thorough="the three-statement programs over 5 straight-line forms x 4 layouts"),
    outside=PIPE_OUTSIDE + ["dependency and importer analysed with DIFFERENT working directories (separate tool invocations started in different directories)", "symbolic links, relative file names handed out by sandboxing drivers, Windows paths",
                            "-print-full-file-path (the kernel under C14 covers RelToCwd; the flag's plumbing is not run here)", "facts are handed over by reference, not through gob"],
    assumptions=PIPE_ASSUME + ["the working directory is injected by assigning tokenhelper's captured value (os.Getwd is not called)"],
    runs=[dict(pkg="accumulation", files=PIPE_FILES, entry="Harness_P18", quick=dict(params=dict(STMTS=2, COMPOUND=5)), thorough=dict(params=dict(STMTS=3, COMPOUND=4, SIMPLE=5)), args=dict(sample_every=61, max_samples=16))],
)

# Seed C18-3 (string-prefix fast path in RelToCwd: /w/ab/x.go seen from /w/a becomes "b/x.go") was missed by Harness_P18, whose
# layouts have no sibling directory sharing a name prefix with the working directory; the RelToCwd kernel is therefore a C18 run too.
PROPERTIES["C18"]["runs"] += [dict(pkg="util/tokenhelper", files=TOKEN_FILES, entry="Harness_C14_Rel", args=dict(sample_every=3))]
PROPERTIES["C18"]["bounds"]["quick"] += "; RelToCwd kernel (Harness_C14_Rel): 2 working directories x 7 directory names (incl. names that merely start with the working directory's name) x 6 placements"
PROPERTIES["C18"]["bounds"]["thorough"] += "; RelToCwd kernel as in quick"

PROPERTIES["C13"]["runs"] += [dict(pkg="accumulation", files=PIPE_FILES, entry="Harness_P13M", args=dict(sample_every=1, max_samples=4))]
PROPERTIES["C13"]["bounds"]["quick"] += "; P13M: 4 programs (two plain functions / two same-named methods / two init functions / one function twice) whose findings have no positioned nil source"

PROPERTIES["C20"]["runs"] += [
    dict(pkg="assertion/function/functioncontracts", files=["functioncontracts/zz_verif_c20.go"], entry="Harness_C20_K1", name="_depth2_core",
         quick=dict(params=dict(DEPTH=2, CONDS=3, RESULTS=2, STMTKINDS=2)), thorough=dict(params=dict(DEPTH=2, CONDS=3, RESULTS=2, STMTKINDS=2)), args=dict(sample_every=37)),
]
PROPERTIES["C20"]["bounds"]["quick"] += "; K1 also on the 590 depth-2 functions built from return and if/else only (3 condition forms, 2 result forms) - the smallest family in which the empty-table-set defect shows"

_P01Y = dict(pkg="accumulation", files=PIPE_FILES, entry="Harness_P01Y", quick=dict(params=dict(STMTS=2, COMPOUND=5)), thorough=dict(params=dict(STMTS=3, COMPOUND=4, SIMPLE=5)), args=dict(sample_every=61, max_samples=12))
PROPERTIES["C03"]["runs"] += [dict(_P01Y, name="_chain3")]
PROPERTIES["C03"]["bounds"]["quick"] += "; source level: 1570 two-statement programs over a chain of three packages (callee in the base, forwarding and accessor functions in the middle, the entry on top; the top importing the base or not; optionally a nolint comment in the base) vs one package"
PROPERTIES["C06"]["runs"] += [dict(_P01Y, name="_source_chain3")]
PROPERTIES["C06"]["explanation"] += (" Source level (P01Y): " + PIPE_EXPL + "the programs of the C01 grammar over a chain of three packages; the flow from the top package's argument to the base package's dereference (and back through the result) "
    "crosses the middle package's forwarding function, i.e. it is carried by the facts the middle package exports.")
PROPERTIES["C06"]["bounds"]["quick"] += "; source level: 1570 programs over a chain of three packages"
PROPERTIES["C01"]["runs"] += [dict(_P01Y, name="_three_packages")]
PROPERTIES["C01"]["bounds"]["quick"] += "; P01Y: 1570 two-statement programs over a chain of three packages"
PROPERTIES["C01"]["outside"] = [o.replace("more than two packages", "more than three packages") for o in PROPERTIES["C01"]["outside"]]

PROPERTIES["C10"]["runs"] += [dict(pkg="accumulation", files=PIPE_FILES, entry="Harness_P10V", args=dict(sample_every=3, max_samples=8))]
PROPERTIES["C10"]["bounds"]["quick"] += "; P10V: 18 programs (receiver annotation x method body x receiver value), reported iff the annotation demands it"

PROPERTIES["C14"]["runs"] += [dict(pkg="accumulation", files=PIPE_FILES, entry="Harness_P14S", args=dict(sample_every=1, max_samples=3))]
PROPERTIES["C14"]["explanation"] += (" Single-line files (P14S): three one-line programs go through the same pipeline and the same obligations X1-X4 - a file with one line start "
                                     "must not be mistaken for an importer-made fake file (defect 32).")
PROPERTIES["C14"]["bounds"]["quick"] += "; three single-line programs"

PROPERTIES["C01"]["runs"] += [dict(pkg="accumulation", files=PIPE_FILES, entry="Harness_P01T", args=dict(sample_every=1, max_samples=12))]
PROPERTIES["C01"]["explanation"] += (" P01T: a callee that reads and possibly rewrites the package-level pointer (hands it out and may clear it / returns nil once and allocates / plain getter) called once or twice by five caller "
    "forms (guard and dereference each call it; result stored and checked; unguarded; early return on nil then a second call; value from one call guarded by another); the oracle runs the calls in order over "
    "'g is nil' as a term in the opaque flag. The guarded double call over a side-effecting callee is a recorded known finding (NilAway assumes calls are idempotent).")
PROPERTIES["C01"]["bounds"]["quick"] += "; P01T: all 30 programs (3 callees x 2 initial states x 5 caller forms; known finding: 2 fail)"
PROPERTIES["C01"]["bounds"]["thorough"] += "; P01T as quick"

PROPERTIES["C01"]["runs"] += [dict(pkg="accumulation", files=PIPE_FILES, entry="Harness_P20", args=dict(sample_every=5, max_samples=20))]
PROPERTIES["C01"]["explanation"] += (" P20 (shared with C20): the same pipeline WITH inferred contracts, call-site sites and trigger duplication switched on - direct, nested, checked and stored calls of a one-parameter callee in ten shapes; "
    "'Entry can dereference nil => reported' per program.")
PROPERTIES["C01"]["bounds"]["quick"] += "; P20: all 160 programs with contract inference on"
PROPERTIES["C01"]["bounds"]["thorough"] += "; P20 as quick"
