package assertiontree

// C02 / C17 at statement level: the function body is built as an AST, the REAL CFG builder
// (golang.org/x/tools/go/cfg.New, executed from SSA) produces the driver's CFG, NilAway's
// preprocessing and nil-check synthesis run on it, and the result is walked under a symbolic
// valuation. Shapes (choices): a value switch `switch x { case ...: }` with 1-3 clauses of 1-2
// values from {nil, s, t} and an optional default, as the first statement of its block or after
// another statement; the same preceded by dead code holding a range loop and a switch (for C17).
//
// x is the guarded pointer; s and t are two distinct non-nil pointers. Symbolic: x is nil; x == s;
// x == t (consistent: nil x equals neither, and x equals at most one of them).

//verif:use zz_verif_c02.go

import (
	"go/ast"
	"go/token"

	"go.uber.org/nilaway/assertion/function/preprocess"
	"golang.org/x/tools/go/cfg"
)

type c02sWorld struct {
	c02World
	s, t     *ast.Ident
	xs       *ast.Ident
	xEqS     bool
	xEqT     bool
	markers  map[ast.Node]int
	nMarkers int
}

func (w *c02sWorld) marker() ast.Stmt {
	w.nMarkers++
	st := &ast.ExprStmt{X: w.ident("mark")} // (not a call: call statements are looked up in the hook tables)
	w.markers[st] = w.nMarkers
	return st
}

// valueOf: truth of `x == v` for a case value v.
func (w *c02sWorld) xEquals(v ast.Expr) (bool, bool) {
	id, ok := v.(*ast.Ident)
	if !ok {
		return false, false
	}
	switch {
	case id.Name == "nil":
		return w.xnil, true
	case id == w.s:
		return w.xEqS, true
	case id == w.t:
		return w.xEqT, true
	}
	return false, false
}

func Harness_C02_Switch() {
	w := &c02sWorld{markers: map[ast.Node]int{}}
	w.xnil, w.xEqS, w.xEqT = ndBool("x_is_nil"), ndBool("x_equals_s"), ndBool("x_equals_t")
	ndAssume(ndAnd(ndImplies(w.xnil, ndAnd(ndNot(w.xEqS), ndNot(w.xEqT))), ndNot(ndAnd(w.xEqS, w.xEqT))))
	w.x, w.s, w.t, w.xs = w.ident("x"), w.ident("s"), w.ident("t"), w.ident("xs")
	values := func(k int) ast.Expr {
		switch k {
		case 0:
			return w.ident("nil")
		case 1:
			return w.s
		}
		return w.t
	}
	// the switch
	nClauses := 1 + ndChoice("clauses", ndParam("CLAUSES", 3))
	hasDefault := ndChoice("default", 2) == 1
	used := map[int]bool{}
	var clauses []ast.Stmt
	type clauseSpec struct {
		vals   []ast.Expr
		marker int
	}
	var specs []clauseSpec
	for c := 0; c < nClauses; c++ {
		nv := 1 + ndChoice("values_in_clause", 2)
		var vals []ast.Expr
		for v := 0; v < nv; v++ {
			k := ndChoice("value", 3)
			if used[k] {
				return // a value may appear once in a switch
			}
			used[k] = true
			vals = append(vals, values(k))
		}
		m := w.marker()
		clauses = append(clauses, &ast.CaseClause{List: vals, Body: []ast.Stmt{m}})
		specs = append(specs, clauseSpec{vals, w.markers[m]})
	}
	defaultMarker := 0
	if hasDefault {
		m := w.marker()
		clauses = append(clauses, &ast.CaseClause{Body: []ast.Stmt{m}})
		defaultMarker = w.markers[m]
	}
	sw := &ast.SwitchStmt{Switch: token.Pos(900), Tag: w.x, Body: &ast.BlockStmt{List: clauses}}
	after := w.marker()
	afterMarker := w.markers[after]
	var list []ast.Stmt
	layout := ndChoice("layout", 3)
	switch layout {
	case 0: // the switch is the first statement of the function body
		list = []ast.Stmt{sw, after}
	case 1: // a statement precedes it in the same block
		list = []ast.Stmt{&ast.ExprStmt{X: w.ident("pre")}, sw, after}
	case 2: // the switch and a range loop sit in dead code after a return; live code is just the marker before
		list = []ast.Stmt{after, &ast.ReturnStmt{Return: token.Pos(950)},
			&ast.RangeStmt{For: token.Pos(960), Key: w.ident("i"), Value: w.ident("v"), Tok: token.DEFINE, X: w.xs, Body: &ast.BlockStmt{List: []ast.Stmt{w.marker()}}},
			sw}
	}
	body := &ast.BlockStmt{Lbrace: token.Pos(800), List: list, Rbrace: token.Pos(999)}
	decl := &ast.FuncDecl{Name: w.ident("f"), Type: &ast.FuncType{}, Body: body}
	graph := cfg.New(body, func(*ast.CallExpr) bool { return true }) // the driver's CFG (ctrlflow does exactly this)
	before := ndSnapshot(graph, body)

	pass := c02Pass()
	pre := preprocess.New(pass).CFG(graph, decl)
	blocks, prep := blocksAndPreprocessingFromCFG(pass, pre, make([][]RichCheckEffect, len(pre.Blocks)))

	ndAssert("C17.driver_cfg_and_ast_unchanged", ndSnapshot(graph, body) == before)
	shared := false
	for _, b := range pre.Blocks {
		for _, o := range graph.Blocks {
			if b == o || ndSameAddr(b.Nodes, o.Nodes) || ndSameAddr(b.Succs, o.Succs) {
				shared = true
			}
		}
	}
	ndAssert("C17.result_shares_no_block_or_backing_array_with_driver_cfg", !shared)
	if layout == 2 {
		return // dead code: nothing to walk
	}

	// reference semantics of the switch: the first clause holding a value equal to x, else default, else fall out
	want := afterMarker
	if hasDefault {
		want = defaultMarker
	}
	matchedEarlier := false
	wantIs := make(map[int]bool) // marker -> symbolic "this clause runs"
	for _, sp := range specs {
		m := false
		for _, v := range sp.vals {
			eq, _ := w.xEquals(v)
			m = ndOr(m, eq)
		}
		wantIs[sp.marker] = ndAnd(m, ndNot(matchedEarlier))
		matchedEarlier = ndOr(matchedEarlier, m)
	}
	wantIs[want] = ndNot(matchedEarlier)

	// walk
	cur := blocks[0]
	root := &RootAssertionNode{}
	reached := 0
	for steps := 0; steps < 64 && reached == 0; steps++ {
		for _, n := range cur.Nodes {
			if m, ok := w.markers[n]; ok && reached == 0 {
				reached = m
			}
		}
		if reached != 0 {
			break
		}
		cond := getConditional(cur)
		if cond == nil {
			if len(cur.Succs) == 0 {
				break
			}
			cur = cur.Succs[0]
			continue
		}
		be, ok := cond.(*ast.BinaryExpr)
		canonical := ok && be.Op == token.EQL && be.X == ast.Expr(w.x)
		ndAssert("C02.S.every_case_test_is_rewritten_to_x_eq_value", canonical)
		if !canonical {
			return
		}
		v, known := w.xEquals(be.Y)
		ndAssert("C02.S.case_value_is_one_of_the_clause_values", known)
		if yi, ok := be.Y.(*ast.Ident); ok && yi.Name == "nil" {
			pp := prep[cur.Index]
			ndAssert("C02.S.case_nil_is_recognised_as_a_nil_check", pp != nil)
			if pp != nil {
				c02Prods = nil
				pp.falseBranchFunc(root)
				ndAssert("C02.S.not_nil_edge_of_case_nil_produces_nonnil_x", len(c02Prods) == 1 && c02Prods[0].expr == ast.Expr(w.x) && c02Prods[0].nonnil)
				c02Prods = nil
				pp.trueBranchFunc(root)
				ndAssert("C02.S.nil_edge_of_case_nil_produces_nothing", len(c02Prods) == 0)
			}
		}
		taken := 1
		if ndConcBool(v) {
			taken = 0
		}
		if pp := prep[cur.Index]; pp != nil {
			c02Prods = nil
			if taken == 0 {
				pp.trueBranchFunc(root)
			} else {
				pp.falseBranchFunc(root)
			}
			for _, p := range c02Prods {
				ndAssert("C02.S.attributed_nonnil_fact_is_true_on_this_branch", p.expr == ast.Expr(w.x) && p.nonnil)
				ndAssert("C02.S.attributed_nonnil_fact_is_true_on_this_branch", ndNot(w.xnil))
			}
		}
		cur = cur.Succs[taken]
	}
	ndObserveInt("reached_marker", reached)
	ndAssert("C02.S.walk_reaches_a_statement", reached != 0)
	if reached != 0 {
		ndAssert("C02.S.switch_runs_the_clause_go_semantics_selects", wantIs[reached])
	}
}
