package diagnostic

// C14 (partial): every diagnostic points at a real line and carries a coherent flow.
// Kernel (real code): (*Engine).AddOverconstraintConflict, nilFlow.addNilPathNode /
// addNonNilPathNode / String, newNode, NewEngine (file table, fake-file detection), (*Engine).toPos
// and the real go/token FileSet / File methods it drives (AddFile, SetLines, AddLine, LineStart,
// Pos, Position).

//verif:init go.uber.org/nilaway/util/tokenhelper

import (
	"fmt"
	"go/token"

	"go.uber.org/nilaway/annotation"
	"go.uber.org/nilaway/config"
	"go.uber.org/nilaway/inference"
	"go.uber.org/nilaway/util/analysishelper"
	"golang.org/x/tools/go/analysis"
)

type c14Repr string

func (r c14Repr) String() string { return string(r) }

// c14Exp is a harness implementation of inference.ExplainedBool (the engine's own explanation
// types carry an unexported trigger type and cannot be built outside package inference).
type c14Exp struct {
	val        bool
	pos        token.Position
	annotation bool // explanation by annotation: no trigger representations
	deeper     inference.ExplainedBool
}

func (e *c14Exp) String() string           { return "explained" }
func (e *c14Exp) Val() bool                { return e.val }
func (e *c14Exp) Position() token.Position { return e.pos }
func (e *c14Exp) TriggerReprs() (fmt.Stringer, fmt.Stringer) {
	if e.annotation {
		return nil, nil
	}
	return c14Repr("produced"), annotation.LocatedRepr{Contained: c14Repr("consumed"), Location: e.pos}
}
func (e *c14Exp) DeeperReason() inference.ExplainedBool {
	if e.deeper == nil {
		return nil
	}
	return e.deeper
}

func c14Chain(tag string, val bool, n int) (inference.ExplainedBool, token.Position) {
	var head, tail *c14Exp
	var last token.Position
	for k := 0; k < n; k++ {
		p := token.Position{Filename: "a.go", Line: ndInt(tag+"_line", 1, 99), Column: 1, Offset: ndInt(tag+"_offset", 0, 999)}
		x := &c14Exp{val: val, pos: p, annotation: k == n-1 && ndChoice(tag+"_root_is_annotation", 2) == 1}
		if head == nil {
			head = x
		} else {
			tail.deeper = x
		}
		tail = x
		last = p
	}
	return head, last
}

func c14Pass(fset *token.FileSet) *analysishelper.EnhancedPass {
	config.Analyzer = &analysis.Analyzer{Name: "nilaway_config"}
	return analysishelper.NewEnhancedPass(&analysis.Pass{Fset: fset,
		ResultOf: map[*analysis.Analyzer]interface{}{config.Analyzer: &config.Config{PrintFullFilePath: false}}})
}

func Harness_C14_Conflict() {
	e := &Engine{pass: c14Pass(nil), files: map[string]fileInfo{}}
	nn := 1 + ndChoice("nil_chain", 3)
	nf := 1 + ndChoice("nonnil_chain", 3)
	nilR, _ := c14Chain("nil", true, nn)
	nonnilR, last := c14Chain("nonnil", false, nf)
	e.AddOverconstraintConflict(nilR, nonnilR)
	ndAssert("C14.one_conflict_recorded", len(e.conflicts) == 1)
	c := e.conflicts[0]
	ndObserveInt("flow_steps", len(c.flow.nilPath)+len(c.flow.nonnilPath))
	ndAssert("C14.flow_has_every_step", len(c.flow.nilPath) == nn && len(c.flow.nonnilPath) == nf)
	ndAssert("C14.reported_position_is_the_last_step_of_the_nonnil_flow", ndAnd(c.position.Line == last.Line, ndAnd(c.position.Offset == last.Offset, c.position.Filename == last.Filename)))
}

// c14File adds a file with `lines` lines of 10 bytes each to the set.
func c14File(fset *token.FileSet, name string, lines int, fake bool) *token.File {
	size := 10 * lines
	if fake {
		size = 1 << 16
	}
	f := fset.AddFile(name, fset.Base(), size)
	tbl := make([]int, lines)
	for i := range tbl {
		if fake {
			tbl[i] = i // the archive importer's fake files: one byte per line
		} else {
			tbl[i] = 10 * i
		}
	}
	if !f.SetLines(tbl) {
		panic("c14: SetLines rejected the table")
	}
	return f
}

func Harness_C14_ToPos() {
	fset := token.NewFileSet()
	kind := ndChoice("file", 3) // 0: a real file of the package, 1: a fake (archive) file, 2: a file the set does not know
	lines := 1 + ndChoice("lines_in_table", 4)
	switch kind {
	case 0:
		c14File(fset, "a.go", 8, false)
	case 1:
		c14File(fset, "a.go", lines, true)
	case 2:
		c14File(fset, "other.go", 3, false)
	}
	e := NewEngine(c14Pass(fset))
	line := ndInt("line", 1, 8)
	col := ndInt("column", 1, 9)
	position := token.Position{Filename: "a.go", Line: line, Column: col, Offset: 10*(line-1) + col - 1}
	pos := e.toPos(position)
	ndAssert("C14.position_is_valid_for_drivers", pos > 0)
	back := fset.Position(pos)
	ndObserveInt("line_back", back.Line)
	ndAssert("C14.position_maps_back_to_the_same_file", back.Filename == "a.go")
	ndAssert("C14.position_maps_back_to_the_same_line", back.Line == line)
	if kind == 0 {
		ndAssert("C14.real_file_position_keeps_the_column", back.Column == col)
	}
	// a second diagnostic in the same file must not disturb the first
	line2 := 1 + ndChoice("second_line", 8)
	pos2 := e.toPos(token.Position{Filename: "a.go", Line: line2, Column: 1, Offset: 10 * (line2 - 1)})
	ndAssert("C14.second_position_is_valid", pos2 > 0)
	ndAssert("C14.second_position_maps_back_to_its_own_line", fset.Position(pos2).Line == line2 && fset.Position(pos2).Filename == "a.go")
	ndAssert("C14.first_position_still_resolves", fset.Position(pos).Line == line)
}

// Harness_C04_K5 (C04): the order of the diagnostics must not depend on the order in which the
// driver registered the files in the token.FileSet (go/packages parses files concurrently, so that
// order changes from run to run). Two engines get the same conflicts - spread over two files, with
// symbolic offsets - but file sets that registered the files in opposite orders; the sequences of
// messages must be equal. Kernel: (*Engine).Diagnostics (its sort), NewEngine, the real toPos.
func Harness_C04_K5() {
	n := 2 + ndChoice("conflicts", ndParam("N", 3)-1)
	grouping := ndChoice("grouping", 2) == 1
	type spec struct {
		file   int
		line   int
		offset int
		nilID  int
	}
	specs := make([]spec, n)
	for k := range specs {
		line := 1 + ndChoice("line", 3)
		specs[k] = spec{file: ndChoice("file", 2), line: line, offset: 10*(line-1) + ndInt("column_offset", 0, 9), nilID: ndChoice("nil_source", 2)}
	}
	names := []string{"a.go", "b.go"}
	run := func(order []int) []string {
		fset := token.NewFileSet()
		for _, f := range order {
			c14File(fset, names[f], 4, false)
		}
		w := &c11World{grouping: grouping}
		NoLintAnalyzer = &analysis.Analyzer{Name: "nilaway_nolint_analyzer"}
		pass := c14Pass(fset)
		pass.ResultOf[NoLintAnalyzer] = &analysishelper.Result[[]Range]{}
		e := NewEngine(pass)
		for k, s := range specs {
			c := c11Build(k, c11Conf{file: 0, line: s.line, offset: s.offset, nilID: s.nilID, marker: c11Marker(k, names[s.file])})
			c.position.Filename = names[s.file]
			e.conflicts = append(e.conflicts, c)
		}
		_ = w
		var msgs []string
		for _, d := range e.Diagnostics(grouping) {
			msgs = append(msgs, d.Message)
		}
		return msgs
	}
	m1 := run([]int{0, 1})
	m2 := run([]int{1, 0})
	ndObserveInt("diagnostics", len(m1))
	same := len(m1) == len(m2)
	if same {
		for i := range m1 {
			if m1[i] != m2[i] {
				same = false
			}
		}
	}
	ndAssert("C04.K5.diagnostic_order_is_independent_of_file_registration_order", same)
}
