package function

// C20-K3 (entry Harness_C20_K2): call-site bookkeeping of contracted functions. Nothing is stubbed: a package with two
// contracted functions f, g (nonnil -> nonnil), a non-contracted h and a two-contract k is printed as
// Go source, parsed and type-checked by the REAL go/parser and go/types (executed from SSA by symx),
// and the REAL duplicateFullTriggersFromContractedFunctionsToCallers (with findCallsToContractedFunctions
// and duplicateFullTrigger) runs on it.
//
// The caller body holds 1..2 statements, each an expression of the grammar
//   E ::= x | f(E) | g(E) | h(E) | k(E) | (E) | *E-free wrappers: use(E)       (depth-bounded)
// Every call of f or g that occurs ANYWHERE in the caller - at statement level, as the argument of
// another contracted call, of a non-contracted call, in parentheses - must receive its own copy of
// the callee's param->return trigger: gated by the call-site parameter site of exactly that call
// (location of its argument), producing at that same site and consuming at the call-site return
// site located at the call. No copy may be made for h or k, and none twice.

//verif:init go/types
//verif:init go/token
//verif:init go/ast
//verif:init go/scanner
//verif:init go/parser

import (
	"go/ast"
	"go/parser"
	"go/token"
	"go/types"
	"strconv"
	"strings"

	"go.uber.org/nilaway/annotation"
	"go.uber.org/nilaway/assertion/function/functioncontracts"
	"go.uber.org/nilaway/config"
	"go.uber.org/nilaway/util/analysishelper"
	"golang.org/x/tools/go/analysis"
)

var ndHarnesses = map[string]func(){"Harness_C20_K2": Harness_C20_K2}

type c20k2Call struct {
	callee       string
	line, col    int // position of the call expression
	aline, acol  int // position of its first argument
	seenProducer bool
}

type c20k2Gen struct {
	calls []c20k2Call
}

// expr returns the source of an expression starting at (line, col) and records every contracted call in it.
func (g *c20k2Gen) expr(depth, line, col int) string {
	kind := 0
	if depth > 0 {
		kind = ndChoice("expr", 6)
	}
	switch kind {
	case 0:
		return "x"
	case 1, 2:
		name := "f"
		if kind == 2 {
			name = "g"
		}
		idx := len(g.calls)
		g.calls = append(g.calls, c20k2Call{callee: name, line: line, col: col, aline: line, acol: col + 2})
		arg := g.expr(depth-1, line, col+2)
		_ = idx
		return name + "(" + arg + ")"
	case 3:
		return "h(" + g.expr(depth-1, line, col+2) + ")"
	case 4:
		return "k(" + g.expr(depth-1, line, col+2) + ")"
	}
	return "(" + g.expr(depth-1, line, col+1) + ")"
}

func Harness_C20_K2() {
	depth := ndParam("DEPTH", 2)
	nstmt := 1 + ndChoice("extra_stmt", ndParam("STMTS", 2))
	var b strings.Builder
	b.WriteString("package p\n\n")                      // 1,2
	b.WriteString("func f(a *int) *int { return a }\n") // 3
	b.WriteString("func g(a *int) *int { return a }\n") // 4
	b.WriteString("func h(a *int) *int { return a }\n") // 5
	b.WriteString("func k(a *int) *int { return a }\n") // 6
	b.WriteString("func use(a *int) {}\n\n")            // 7,8
	b.WriteString("func caller(x *int) {\n")            // 9
	g := &c20k2Gen{}
	for s := 0; s < nstmt; s++ {
		line := 10 + s
		switch ndChoice("stmt", 3) {
		case 0: // "\t_ = E"
			b.WriteString("\t_ = " + g.expr(depth, line, 6) + "\n")
		case 1: // "\tuse(E)"
			b.WriteString("\tuse(" + g.expr(depth, line, 6) + ")\n")
		default: // "\tx = E"
			b.WriteString("\tx = " + g.expr(depth, line, 6) + "\n")
		}
	}
	b.WriteString("}\n")
	src := b.String()
	ndObserveStr("source", src)

	fset := token.NewFileSet()
	file, err := parser.ParseFile(fset, "p.go", src, 0)
	if err != nil {
		panic("generated source does not parse: " + err.Error() + "\n" + src)
	}
	info := &types.Info{
		Types: map[ast.Expr]types.TypeAndValue{}, Defs: map[*ast.Ident]types.Object{}, Uses: map[*ast.Ident]types.Object{},
		Selections: map[*ast.SelectorExpr]*types.Selection{}, Scopes: map[ast.Node]*types.Scope{}, Implicits: map[ast.Node]types.Object{},
	}
	pkg, err := (&types.Config{}).Check("m/p", fset, []*ast.File{file}, info)
	if err != nil {
		panic("generated source does not type-check: " + err.Error() + "\n" + src)
	}
	conf := config.VerifConfig([]string{""}, nil, false)
	// the pass result is keyed by the analyzer pointer only; a fresh one stands in for the flag-parsing initialiser
	config.Analyzer = &analysis.Analyzer{Name: "nilaway_config_analyzer"}
	pass := analysishelper.NewEnhancedPass(&analysis.Pass{Fset: fset, Files: []*ast.File{file}, Pkg: pkg, TypesInfo: info,
		ResultOf: map[*analysis.Analyzer]interface{}{config.Analyzer: conf}})

	fn := func(name string) *types.Func { return pkg.Scope().Lookup(name).(*types.Func) }
	decl := func(name string) *ast.FuncDecl {
		for _, d := range file.Decls {
			if fd, ok := d.(*ast.FuncDecl); ok && fd.Name.Name == name {
				return fd
			}
		}
		return nil
	}
	nn := functioncontracts.Contract{Ins: []functioncontracts.ContractVal{functioncontracts.NonNil}, Outs: []functioncontracts.ContractVal{functioncontracts.NonNil}}
	contracts := functioncontracts.Map{
		fn("f"): {nn},
		fn("g"): {nn},
		fn("k"): {nn, nn}, // two contracts: not the single nonnil->nonnil shape, must be ignored
	}

	// the analysis results of the package's functions, as analyzeFunc would have produced them: each of
	// f, g, h, k has the one trigger "parameter flows to the result"; the caller has none.
	names := []string{"f", "g", "h", "k", "use", "caller"}
	funcTriggers := make([][]annotation.FullTrigger, len(names))
	funcResults := map[*types.Func]*functionResult{}
	for i, name := range names {
		d := decl(name)
		var trs []annotation.FullTrigger
		if i < 4 {
			ret := d.Body.List[0].(*ast.ReturnStmt)
			trs = []annotation.FullTrigger{{
				Producer: &annotation.ProduceTrigger{
					Annotation: &annotation.FuncParam{TriggerIfNilable: &annotation.TriggerIfNilable{Ann: annotation.ParamKeyFromArgNum(fn(name), 0)}},
					Expr:       ret.Results[0],
				},
				Consumer: &annotation.ConsumeTrigger{
					Annotation: &annotation.UseAsReturn{
						TriggerIfNonNil: &annotation.TriggerIfNonNil{Ann: annotation.RetKeyFromRetNum(fn(name), 0)},
						RetStmt:         ret,
					},
					Expr: ret.Results[0],
				},
			}}
		}
		funcTriggers[i] = trs
		funcResults[fn(name)] = &functionResult{triggers: trs, index: i, funcDecl: d}
	}

	duplicateFullTriggersFromContractedFunctionsToCallers(pass, contracts, funcTriggers, funcResults)

	for i := 0; i < 5; i++ {
		want := 1
		if i == 4 {
			want = 0
		}
		ndAssert("C20.K3.no_trigger_is_added_to_a_function_without_contracted_calls_"+names[i], len(funcTriggers[i]) == want)
	}
	dups := funcTriggers[5]
	ndObserveInt("contracted_calls", len(g.calls))
	ndObserveInt("duplicated_triggers", len(dups))
	ndAssert("C20.K3.one_duplicated_trigger_per_contracted_call", len(dups) == len(g.calls))
	matched := 0
	for _, t := range dups {
		ctrl := t.Controller
		okc := ctrl != nil
		fp, okp := t.Producer.Annotation.(*annotation.FuncParam)
		ur, oku := t.Consumer.Annotation.(*annotation.UseAsReturn)
		if !okc || !okp || !oku {
			ndAssert("C20.K3.duplicated_trigger_is_a_controlled_param_to_return_trigger", false)
			continue
		}
		pk, okpk := fp.Ann.(*annotation.CallSiteParamAnnotationKey)
		rk, okrk := ur.Ann.(*annotation.CallSiteRetAnnotationKey)
		if !okpk || !okrk {
			ndAssert("C20.K3.duplicated_trigger_uses_call_site_sites", false)
			continue
		}
		ndAssert("C20.K3.controller_is_the_producing_call_site_parameter", *ctrl == *pk)
		for ci := range g.calls {
			c := &g.calls[ci]
			if c.callee == pk.FuncDecl.Name() && pk.Location.Line == c.aline && pk.Location.Column == c.acol {
				ok := !c.seenProducer && rk.FuncDecl == pk.FuncDecl && rk.Location.Line == c.line && rk.Location.Column == c.col && rk.RetNum == 0 && pk.ParamNum == 0
				ndAssert("C20.K3.duplicated_trigger_matches_exactly_one_call_"+strconv.Itoa(ci), ok)
				c.seenProducer = true
				matched++
			}
		}
	}
	ndAssert("C20.K3.every_contracted_call_has_its_trigger", matched == len(g.calls))
}
