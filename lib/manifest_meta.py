"""Claims text per property and the not-applicable list (kept current with registry.py)."""

NOTES = ("All checks are bounded symbolic execution of the real functions (from go/ssa of /repo's working tree) with an SMT solver; "
         "bounds and what lies outside them are in each evidence file (coverage.bounds / coverage.outside_bounds) and in DESIGN.md section 4. "
         "Exit 2 = inconclusive (bound hit, solver unknown, unsupported construct, translator mismatch) and never happens on the unchanged tree.")

CLAIMS = {
    "C19": dict(
        text="For every token value and ALL operand pairs (int64, uint64, bounded ASCII strings) the solver shows a op b == b converse(op) a == !(a inverse(op) b), "
             "both maps are involutions, commute, and panic exactly outside the six comparisons. The integer domains are complete (no bound); strings are length-bounded.",
        note="Trusted: symx executor, z3, go/token.Token.String executed from SSA after running go/token's initialiser. Floats are outside. "
             "Sampled paths are re-run natively (go test -overlay) and must observe the same values.",
    ),
    "C12": dict(
        text="Within the bounds (<=3 include x <=3 exclude symbolic prefixes, symbolic package path, symbolic comment texts/positions) the solver shows that IsPkgInScope "
             "equals (some include prefix matches) and not (some exclude prefix matches), that config.run turns an empty -include-pkgs into 'everything', and that IsFileInScope "
             "looks only at comment groups before the package clause with the templ marker overriding exclude docstrings.",
        note="Partial: the clause 'an out-of-scope package publishes no facts' is checked per analyzer entry (K3) where registered; per-file filtering inside whole-package AST walks is outside. "
             "Stubs: types.NewPackage/(*types.Package).Path (symbolic path), (*ast.CommentGroup).Text (single-line contract, validated natively on samples).",
    ),
    "C05": dict(
        text="For every sequence of <=N constraints (sources, sinks, flows, annotations, controlled triggers) over S symbolic sites, in every observation order, the solver shows: "
             "a conflict is recorded iff a nil source reaches a non-nil sink in the constraint graph; every recorded explanation is a path of observed constraints meeting at one site; "
             "without a conflict each site's verdict equals reachability. Site identities stay symbolic, so the verdict covers all site assignments within the bound, not samples.",
        note="Bounded (see evidence.coverage.bounds). L2 replaces primitivizer.site/fullTrigger by a contract stub under symx; the native replay runs the real ones on sampled paths and on every counterexample. "
             "Found and fixed (fix: commit in /repo): controlled triggers with a pre-determined controller were never activated.",
    ),
}

# reasons for every property not (yet) claimed
NOT_APPLICABLE = {
    "C01": "The quantified object is a whole Go program (AST + types.Info + CFG + assertion-tree fixpoint); a symbolic program needs symbolic heap shape, out of reach of a bounded SSA symbolic executor. The scalar-driven parts of its mechanism are decided under C05 (flow closure) and C02/C19 (branch attribution).",
    "C16": "The quantifier is goroutine interleavings over the whole analysis heap; symx has no thread model and no installed solver-based engine explores Go schedules.",
    "C18": "Everything the property depends on is environment (process cwd captured at init, filepath.Rel, driver cwd); after stubbing those by contract the residual repo code is a one-line wrapper.",
}
for _p in ["C02", "C03", "C04", "C06", "C07", "C08", "C09", "C10", "C11", "C13", "C14", "C15", "C17", "C20"]:
    NOT_APPLICABLE.setdefault(_p, "kernel check not yet registered (in progress; see DESIGN.md section 4)")
