package tokenhelper

// C14 (file names of positions) / C18 kernel: RelToCwd. Every file name NilAway prints or stores in a
// site identity went through RelToCwd; the name it returns must still denote the same file when it is
// resolved against the working directory (otherwise a flow step names a file that does not exist), and
// hence two different files never get the same name (site identities are keyed by it).
//
// The working directory is /w/a (or /); the file lives in one of six places relative to it, in a directory
// (or with a base name) taken from a small alphabet that contains names which merely START with the name of the
// working directory (/w/ab vs /w/a), dotted names and the directory's own name. The real filepath.Rel / Clean /
// Join run from SSA. (A symbolic directory name was tried first: every slice-bounds query over a symbolic
// string length came back unknown from z3 4.8.12, z3 5.1.0 and cvc5 - recorded in DESIGN.md - so the names
// are enumerated and this kernel has no solver-decided branch.)

import "path/filepath"

func c14Resolve(cwd, name string) string {
	if filepath.IsAbs(name) {
		return filepath.Clean(name)
	}
	return filepath.Join(cwd, name)
}

func c14File(tag string, d string) string {
	switch ndChoice(tag, 6) {
	case 0:
		return "/w/" + d + "/x.go" // sibling of the working directory (or the directory itself)
	case 1:
		return "/w/a/" + d + "/x.go" // below it
	case 2:
		return "/" + d + "/x.go" // elsewhere
	case 3:
		return "/w/a/" + d + ".go" // a file directly in it
	case 4:
		return "/w/" + d + ".go" // a file next to it
	}
	return d + "/x.go" // a relative name (drivers that run in a sandbox hand out such names)
}

func Harness_C14_Rel() {
	root := ndChoice("cwd", 2) == 1
	cwd := "/w/a"
	if root {
		cwd = "/"
	}
	_cwd, _cwdErr = cwd, nil
	d1 := []string{"a", "ab", "b", "w", "aa", "a.b", "..a"}[ndChoice("dir1", 7)]
	f1 := c14File("file1", d1)
	r1 := RelToCwd(f1)
	ndObserveStr("file1", f1)
	ndObserveStr("rel1", r1)
	ndAssert("C14.R.relative_name_denotes_the_same_file", c14Resolve(cwd, r1) == c14Resolve(cwd, f1))
	// (injectivity follows: equal names resolve to equal files)
}
