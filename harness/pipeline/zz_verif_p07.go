package accumulation

// C07 at source level: totality of the per-function analysis over a family of syntactic constructs, through
// the REAL pipeline (zz_verif_pipe.go). A function body is assembled from one or two statement templates
// out of a fixed list of 75 that covers the node kinds a control-flow graph can carry (type assertions and
// function literals used as conditions or switch tags, range-over-func with literal / defined / aliased
// yield types and 0-2 variables, range-over-int, labelled break/continue/goto, tagged and tagless switches
// with fallthrough and negated cases, type switches, select, conversions on the left of an assignment,
// parenthesised multi-value calls, generics, closures, defer/recover, channel operations, ...).
// Obligation P07.A4: the analysis returns normally - no panic escapes, no backpropagation error, no
// INTERNAL diagnostic. This kernel has no symbolic scalars: it is an enumeration of templates executed
// by symx (and natively on samples); what it adds over the test suite is the systematic pairing.

//verif:use zz_verif_pipe.go

import "strings"

const p07Prelude = `package p

type node struct {
	next *node
	val  *int
}
type mySlice []*int
type visitFn func(*int) bool
type visitAlias = func(*int) bool
type list struct{ items []*int }

func (l *list) All(yield visitFn) {
	for _, it := range l.items {
		if !yield(it) {
			return
		}
	}
}
func (l *list) Each(yield func(*int) bool) {
	for _, it := range l.items {
		if !yield(it) {
			return
		}
	}
}
func (l *list) EachAlias(yield visitAlias) {
	for _, it := range l.items {
		if !yield(it) {
			return
		}
	}
}
func (l *list) Pairs(yield func(int, *int) bool) {
	for k, it := range l.items {
		if !yield(k, it) {
			return
		}
	}
}
func next() any                   { return true }
func two() (*int, *int)          { return nil, nil }
func takes2(a, b *int)           {}
func vari(xs ...*int) *int       { return nil }
func id[T any](t T) T            { return t }
func pair[K comparable, V any](k K, v V) V { return v }

type shape interface{ area() *int }
type sq struct{ side *int }

func (s *sq) area() *int { return s.side }

var gm map[string]*int
var gch chan *int
var gflag bool

type box[T any] struct{ v T }

func (b *box[T]) get() T { return b.v }

type base struct{ p *int }

func (b *base) ptr() *int { return b.p }

type derived struct {
	base
	extra *int
}

func named() (r *int, err error) {
	defer func() {
		if recover() != nil {
			r = nil
		}
	}()
	r = new(int)
	return
}

func three() (*int, bool, error) { return nil, false, nil }

type fnT func(*int) *int

// generic functions whose range operand is a type parameter (basic, string, slice, map, func core types)
type count interface {
	~int
	String() string
}

func sumTo[N ~int](n N) int {
	t := 0
	for k := range n {
		t += int(k)
	}
	return t
}

func labels[C count](c C) string {
	out := ""
	for k := range c {
		out += k.String()
	}
	return out
}

func offsets[S ~string](s S) int {
	t := 0
	for k := range s {
		t += k
	}
	return t
}

func firsts[S ~[]*int](s S) int {
	for _, v := range s {
		if v != nil {
			return *v
		}
	}
	return 0
}

func keys[M ~map[string]*int](m M) int {
	t := 0
	for k := range m {
		t += len(k)
	}
	return t
}

func walk[F ~func(func(*int) bool)](f F) {
	for v := range f {
		_ = v
	}
}

// package-level variables initialised by calls that are not calls of declared functions
var defaults = struct{ lookup func(string) *int }{lookup: func(string) *int { return nil }}
var gfield = defaults.lookup("x")
var gconv = mySlice(nil)
var gmeth = (&list{}).All
var gfunc = fnT(nil)

var garr [3]*int
var gs string

`

func p07TemplateList() []string {
	return []string{
		"if i.(bool) {\n\t_ = *x\n}",
		"for next().(bool) {\n\tbreak\n}",
		"switch {\ncase i.(bool):\n\t_ = *x\n}",
		"for v := range l.All {\n\t_ = *v\n}",
		"for v := range l.Each {\n\t_ = *v\n}",
		"for v := range l.EachAlias {\n\t_ = *v\n}",
		"for k, v := range l.Pairs {\n\t_, _ = k, *v\n}",
		"for range l.All {\n}",
		"for k := range l.Pairs {\n\t_ = k\n}",
		"switch (func() {}) {\ndefault:\n}",
		"mySlice(s)[0] = nil",
		"takes2((two()))",
		"takes2(two())",
		"switch b {\ncase !c:\n\tprint(\"x\")\n\tif d {\n\t\tprint(\"y\")\n\t}\n}",
		"switch b {\ncase c, !d:\n\t_ = *x\n\tfallthrough\ncase true:\n\t_ = *x\ndefault:\n}",
		"OUTERL:\n\tfor {\n\t\tfor {\n\t\t\tif b {\n\t\t\t\tcontinue OUTERL\n\t\t\t}\n\t\t\tbreak OUTERL\n\t\t}\n\t}",
		"if b {\n\tgoto ENDL\n}\n_ = *x\nENDL:\n\tprint(\"e\")",
		"select {\ncase v := <-gch:\n\t_ = *v\ndefault:\n}",
		"select {\ncase gch <- x:\ncase v, ok := <-gch:\n\tif ok {\n\t\t_ = *v\n\t}\n}",
		"switch v := i.(type) {\ncase *int:\n\t_ = *v\ncase nil:\ncase shape:\n\t_ = *v.area()\n}",
		"switch i.(type) {\n}",
		"_ = *id(x)\n_ = id[*int](x)\n_ = pair[string, *int](\"k\", x)",
		"func() {\n\t_ = *x\n}()",
		"defer func() {\n\t_ = recover()\n}()",
		"for k := range 3 {\n\t_ = k\n}",
		"arr := [2]*int{}\n_ = *arr[0]",
		"if v, ok := gm[\"a\"]; ok {\n\t_ = *v\n}",
		"n := &node{}\n_ = *n.next.val",
		"_ = vari()\n_ = vari(s...)\n_ = vari(x, x)",
		"y := x\nx, y = y, x\n_ = y",
		"switch {\n}",
		"if v, ok := i.(*int); ok {\n\t_ = *v\n}",
		"v := i.(*int)\n_ = *v",
		"if x != nil {\n\t*x++\n\t*x += 1\n}",
		"gch <- x\n_ = <-gch",
		"if x != nil && *x > 0 || b {\n\tprint(\"z\")\n}",
		"for x != nil {\n\tx = nil\n}",
		"for k := 0; k < len(s); k++ {\n\tif b {\n\t\tcontinue\n\t}\n\t_ = *s[k]\n}",
		"var sh shape = &sq{}\n_ = *sh.area()",
		"var sh shape\nif sh != nil {\n\t_ = *sh.area()\n}",
		"f := l.All\nf(func(v *int) bool { return v != nil })",
		"var _ = *x\nconst k = 1\n_ = k",
		"x = *&x",
		"go func() {}()",
		"for _, v := range s {\n\tif v == nil {\n\t\tcontinue\n\t}\n\t_ = *v\n}",
		"for k, v := range gm {\n\t_, _ = k, *v\n}",
		"if p, q := two(); p != nil && q != nil {\n\t_, _ = *p, *q\n}",
		"type local struct{ f *int }\nlv := local{}\n_ = *lv.f",
		"switch y := x; {\ncase y == nil:\ndefault:\n\t_ = *y\n}",
		"s = append(s, x)\n_ = *s[len(s)-1]\ns = s[1:]\ns = s[:0:0]",
		"v, ok := gm[\"k\"]\nif ok {\n\t_ = *v\n}\nv, ok = <-gch\n_, _ = v, ok",
		"w, ok := i.(*int)\n_ = ok\nif w != nil {\n\t_ = *w\n}",
		"mv := l.All\nmv(func(*int) bool { return true })\nme := (*list).All\nme(l, func(*int) bool { return false })",
		"bx := &box[*int]{v: x}\n_ = *bx.get()\nvar by box[int]\n_ = by.get()",
		"dv := &derived{}\n_ = *dv.ptr()\n_ = *dv.p\n_ = *dv.base.p\n_ = *dv.extra",
		"_ = vari(s...)\n_ = vari(append(s, x)...)\nvar none []*int\n_ = vari(none...)",
		"r, err := named()\nif err != nil {\n\treturn\n}\n_ = *r",
		"p1, okk, err := three()\n_, _ = okk, err\n_ = *p1",
		"for k, ch := range gs {\n\t_, _ = k, ch\n}\nfor range gs {\n}",
		"for v := range gch {\n\t_ = *v\n}",
		"for k := range gm {\n\tdelete(gm, k)\n}\nclear(gm)",
		"for k, v := range garr {\n\t_, _ = k, *v\n}\nfor k := range garr {\n\t_ = *garr[k]\n}",
		"var f fnT = func(q *int) *int { return q }\n_ = *f(x)\n_ = *fnT(f)(nil)",
		"lit := []*int{x, nil}\n_ = *lit[1]\nml := map[string]*int{\"a\": x}\n_ = *ml[\"a\"]\nsl := struct{ q *int }{q: x}\n_ = *sl.q",
		"switch v := i.(type) {\ncase *int, *node:\n\t_ = v\ncase interface{ area() *int }:\n\t_ = *v.area()\ndefault:\n\t_ = v\n}",
		"var e error\nswitch e.(type) {\ncase nil:\ncase interface{ Unwrap() error }:\n}",
		"func() {\n\tdefer func() { _ = *x }()\n\tgo func() { _ = *x }()\n}()",
		"pp := &x\n_ = **pp\n*pp = nil\n_ = *x",
		"var iface any = x\nif q, ok := iface.(interface{ m() }); ok {\n\tq.m()\n}",
		"a1, a2 := x, x\na1, a2 = a2, nil\n_, _ = *a1, *a2",
		"const n = 2\nvar fixed [n]*int\nfixed[n-1] = x\n_ = *fixed[0]",
		"if x == nil || *x == 0 {\n\treturn\n}\n_ = *x",
		"for {\n\tselect {\n\tcase v, ok := <-gch:\n\t\tif !ok {\n\t\t\treturn\n\t\t}\n\t\t_ = *v\n\tcase gch <- x:\n\t\tcontinue\n\t}\n}",
		"LBLL:\n\tswitch {\n\tcase b:\n\t\tfor {\n\t\t\tbreak LBLL\n\t\t}\n\tdefault:\n\t}",
		"var arrp *[3]*int\nif arrp != nil {\n\t_ = *arrp[0]\n\tfor range arrp {\n\t}\n}",
	}
}

func p07Indent(t string) string {
	return "\t" + strings.ReplaceAll(t, "\n", "\n\t") + "\n"
}

func p07Block(t string) string {
	return "\t{\n\t\t" + strings.ReplaceAll(t, "\n", "\n\t\t") + "\n\t}\n"
}

func Harness_P07() {
	p07Templates := p07TemplateList()
	k1 := ndChoice("template1", len(p07Templates))
	body := p07Indent(p07Templates[k1])
	if ndParam("PAIRS", 0) == 1 {
		k2 := ndChoice("template2", len(p07Templates))
		// two templates may declare the same name or label: keep each in its own block
		// labels are function-scoped: the second copy gets its own
		second := strings.ReplaceAll(strings.ReplaceAll(strings.ReplaceAll(p07Templates[k2], "OUTERL", "OUTERM"), "ENDL", "ENDM"), "LBLL", "LBLM")
		body = p07Block(p07Templates[k1]) + p07Block(second)
	}
	prelude := p07Prelude
	if ndParam("CONTRACTS", 0) == 1 {
		// hand-written contracts, also on functions that can be called without arguments; the pipeline then collects
		// contracts and duplicates the callees' triggers at their calls
		prelude = strings.Replace(prelude, "func vari(xs ...*int) *int       { return nil }", "// contract(nonnil -> nonnil)\nfunc vari(xs ...*int) *int { return nil }\n\n// contract(nonnil -> nonnil)\nfunc zero() *int { return nil }", 1)
		prelude = strings.Replace(prelude, "func id[T any](t T) T            { return t }", "func id[T any](t T) T { return t }\n\n// contract(nonnil -> nonnil)\nfunc keep(p *int) *int { return p }", 1)
		body += "\t_ = zero()\n\t_ = keep(keep(x))\n"
		pipeContracts = true
	}
	src := prelude + "func T(s []*int, x *int, b, c, d bool, l *list, i any) {\n" + body + "}\n"
	ndObserveStr("source", src)
	r := pipeAnalyse(src)
	pipeContracts = false
	ndObserveInt("diagnostics", len(r.diags))
	ndObserveStr("panicked", r.panicked)
	for _, e := range r.funcErrs {
		ndObserveStr("error", e)
	}
	internal := r.panicked != "" || len(r.funcErrs) > 0
	for _, d := range r.diags {
		if strings.Contains(d.Message, "INTERNAL") {
			internal = true
		}
	}
	ndAssert("P07.A4.no_internal_failure", !internal)
}
