package accumulation

// P10V: annotations on a method's RECEIVER (C10 lists receivers among the annotatable sites).
//
//	type T int
//	// [nilable(t) | nonnil(t)]
//	func (t *T) val() int { return int(*t)  |  if t == nil { return 0 }; return int(*t)  |  return 0 }
//	func Entry() { var t *T  |  t := new(T) ; _ = t.val() }
//
// Expected report: iff  nil is passed as a nonnil-annotated receiver, or a nilable-annotated receiver is
// dereferenced unchecked, or (no annotation) nil reaches the unchecked dereference. Both directions asserted.

//verif:use zz_verif_pipe.go

import "strings"

func Harness_P10V() {
	var b strings.Builder
	b.WriteString("package p\n\ntype T int\n\n")
	ann := ndChoice("annotation", 3) // 0 none, 1 nilable(t), 2 nonnil(t)
	switch ann {
	case 1:
		b.WriteString("// nilable(t)\n")
	case 2:
		b.WriteString("// nonnil(t)\n")
	}
	body := ndChoice("body", 3) // 0 unchecked dereference, 1 checked, 2 receiver unused
	switch body {
	case 0:
		b.WriteString("func (t *T) val() int { return int(*t) }\n\n")
	case 1:
		b.WriteString("func (t *T) val() int {\n\tif t == nil {\n\t\treturn 0\n\t}\n\treturn int(*t)\n}\n\n")
	default:
		b.WriteString("func (t *T) val() int { return 0 }\n\n")
	}
	passesNil := ndChoice("receiver_value", 2) == 0
	if passesNil {
		b.WriteString("func Entry() int {\n\tvar t *T\n\treturn t.val()\n}\n")
	} else {
		b.WriteString("func Entry() int {\n\tt := new(T)\n\treturn t.val()\n}\n")
	}
	src := b.String()
	ndObserveStr("source", src)
	r := pipeAnalyse(src)
	ndObserveInt("diagnostics", len(r.diags))
	for _, d := range r.diags {
		ndObserveStr("diag", d.Message)
	}
	ndAssert("P10V.no_internal_failure", r.panicked == "" && len(r.funcErrs) == 0)
	var expected bool
	switch ann {
	case 1:
		expected = body == 0
	case 2:
		expected = passesNil
	default:
		expected = passesNil && body == 0
	}
	ndAssert("P10V.reported_iff_the_receiver_annotation_demands_it", (len(r.diags) > 0) == expected)
}
