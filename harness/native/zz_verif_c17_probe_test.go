package nilaway

// Native confirmation for C17 (templ): an analyzer that shares the pass with NilAway (it requires
// ctrlflow and NilAway, so it runs after NilAway) inspects the ctrlflow CFG of every function
// literal of testdata/src/go.uber.org/templ. Every *ast.ReturnStmt in a literal's CFG must lie
// inside the literal; NilAway writing the enclosing function's return statement into the shared
// blocks shows up as a return statement outside the literal's source range.

import (
	"fmt"
	"go/ast"
	"os"
	"path/filepath"
	"testing"

	"golang.org/x/tools/go/analysis"
	"golang.org/x/tools/go/analysis/checker"
	"golang.org/x/tools/go/analysis/passes/ctrlflow"
	"golang.org/x/tools/go/packages"
)

func TestVerifC17TemplProbe(t *testing.T) {
	bad, total := 0, 0
	probe := &analysis.Analyzer{
		Name:     "verif_c17_probe",
		Doc:      "checks that function-literal CFGs shared through ctrlflow are unmodified",
		Requires: []*analysis.Analyzer{ctrlflow.Analyzer, Analyzer},
		Run: func(pass *analysis.Pass) (interface{}, error) {
			cfgs := pass.ResultOf[ctrlflow.Analyzer].(*ctrlflow.CFGs)
			for _, f := range pass.Files {
				ast.Inspect(f, func(n ast.Node) bool {
					lit, ok := n.(*ast.FuncLit)
					if !ok {
						return true
					}
					g := cfgs.FuncLit(lit)
					if g == nil {
						return true
					}
					for _, b := range g.Blocks {
						for _, node := range b.Nodes {
							if r, ok := node.(*ast.ReturnStmt); ok {
								total++
								if r.Pos() < lit.Pos() || r.Pos() >= lit.End() { // (End() is not used: the CFG builder adds an implicit return at the closing brace)
									bad++
									t.Logf("return at %s is outside literal %s..%s", pass.Fset.Position(r.Pos()), pass.Fset.Position(lit.Pos()), pass.Fset.Position(lit.End()))
								}
							}
						}
					}
					return true
				})
			}
			return nil, nil
		},
	}
	testdata, err := filepath.Abs("testdata")
	if err != nil {
		t.Fatal(err)
	}
	cfg := &packages.Config{
		Mode: packages.LoadAllSyntax,
		Dir:  filepath.Join(testdata, "src"),
		Env:  append(os.Environ(), "GOPATH="+testdata, "GO111MODULE=off", "GOPROXY=off", "GOWORK=off", "GOFLAGS="),
	}
	pkgs, err := packages.Load(cfg, "go.uber.org/templ")
	if err != nil {
		t.Fatal(err)
	}
	if packages.PrintErrors(pkgs) > 0 {
		t.Fatal("load errors")
	}
	if _, err := checker.Analyze([]*analysis.Analyzer{probe}, pkgs, nil); err != nil {
		t.Fatal(err)
	}
	out := fmt.Sprintf("returns_in_literal_cfgs=%d outside_their_literal=%d\n", total, bad)
	if p := os.Getenv("VERIF_OUT"); p != "" {
		os.WriteFile(p, []byte(out), 0o644)
	}
	t.Log(out)
	if total == 0 {
		t.Fatal("probe saw no return statements: vacuous")
	}
	if bad > 0 {
		t.Fatalf("shared function-literal CFG was modified: %d of %d return statements lie outside their literal", bad, total)
	}
}
